#!/bin/bash
# Build the overlay venv used by every check: /venv (the repository's own environment, which
# holds spatialpandas as an editable install of /repo) + z3-solver from the offline wheelhouse.
set -e
cd "$(dirname "$0")"
if [ ! -x .venv/bin/python ] || ! .venv/bin/python -c "import z3, spatialpandas" >/dev/null 2>&1; then
  rm -rf .venv
  /venv/bin/python -m venv .venv
  SP=$(.venv/bin/python -c "import site; print(site.getsitepackages()[0])")
  echo "import site; site.addsitedir('/venv/lib/python3.12/site-packages')" > "$SP/_base.pth"
  PIP_NO_INDEX=1 .venv/bin/pip install --quiet --no-index --find-links /opt/veriftools/wheels z3-solver
fi
.venv/bin/python -c "import z3, spatialpandas, numba; print('setup ok: z3', z3.get_version_string(), 'spatialpandas from', spatialpandas.__file__)"
