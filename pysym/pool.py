"""Process pool for obligations: every obligation is a python function executed in a forked worker (so that z3
contexts are independent, time-outs can be enforced by kill, and 16 cores are used).  Portfolio groups: several
tasks with the same `group`; the first definite answer (sat/unsat) wins and the siblings are killed.
"""
import multiprocessing as mp
import os
import time
import traceback

DEFINITE = ('unsat', 'sat', 'holds', 'violated')


class Task:
    def __init__(self, name, fn, args=(), kwargs=None, timeout=300, group=None, meta=None):
        self.name, self.fn, self.args, self.kwargs = name, fn, args, kwargs or {}
        self.timeout, self.group, self.meta = timeout, group or name, meta or {}


def _worker(q, fn, args, kwargs):
    t0 = time.time()
    try:
        r = fn(*args, **kwargs)
        if not isinstance(r, dict):
            r = {'status': 'error', 'detail': f'worker returned {type(r).__name__}'}
    except BaseException as e:   # noqa: BLE001 - report everything, the parent decides
        name = type(e).__name__
        status = 'unsupported' if name in ('Unsupported', 'NeedConcrete', 'OutOfBounds') else 'error'
        r = {'status': status, 'detail': f'{name}: {e}', 'trace': traceback.format_exc()[-1500:]}
    r.setdefault('wall_s', round(time.time() - t0, 3))
    try:
        q.put(r)
    except Exception as e:  # unpicklable payload
        q.put({'status': 'error', 'detail': f'unpicklable result: {e}'})


def run_tasks(tasks, workers=None, progress=None):
    """-> dict group -> result (with 'task' = name of the deciding member, 'members' = all member results)"""
    workers = workers or int(os.environ.get('VERIF_WORKERS', os.cpu_count() or 4))
    ctx = mp.get_context('fork')
    pending = list(tasks)
    running = []      # (task, proc, queue, t0)
    results = {}
    members = {}
    decided = set()
    while pending or running:
        while pending and len(running) < workers:
            t = pending.pop(0)
            if t.group in decided:
                continue
            q = ctx.Queue()
            p = ctx.Process(target=_worker, args=(q, t.fn, t.args, t.kwargs), daemon=True)
            p.start()
            running.append((t, p, q, time.time()))
        time.sleep(0.02)
        still = []
        for t, p, q, t0 in running:
            r = None
            if t.group in decided:
                p.kill()
                p.join()
                continue
            try:
                r = q.get_nowait()
            except Exception:
                r = None
            if r is None:
                if not p.is_alive():
                    try:
                        r = q.get(timeout=0.5)
                    except Exception:
                        r = {'status': 'error', 'detail': f'worker died (exit {p.exitcode})'}
                elif time.time() - t0 > t.timeout:
                    p.kill()
                    p.join()
                    r = {'status': 'timeout', 'detail': f'killed after {t.timeout}s', 'wall_s': round(time.time() - t0, 1)}
            if r is None:
                still.append((t, p, q, t0))
                continue
            p.join(timeout=1)
            r['task'] = t.name
            r.setdefault('meta', t.meta)
            members.setdefault(t.group, []).append(r)
            if r['status'] in DEFINITE:
                prev = results.get(t.group)
                if prev is not None and prev['status'] in DEFINITE and prev['status'] != r['status']:
                    r = {'status': 'error', 'detail': f"portfolio disagreement: {prev['status']} vs {r['status']}", 'task': t.name}
                results[t.group] = r
                decided.add(t.group)
            else:
                if t.group not in results or results[t.group]['status'] not in DEFINITE:
                    # keep the most informative non-definite answer
                    results[t.group] = r
            if progress:
                progress(t, r)
        running = still
    for g, r in results.items():
        r['members'] = [{k: v for k, v in m.items() if k in ('task', 'status', 'wall_s', 'solver_s', 'detail')} for m in members.get(g, [])]
    return results
