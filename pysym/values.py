"""Symbolic values of the pysym engine: SBool, Num (IEEE-like float over z3 Int/Real + NaN/inf flags),
SInt (int64 as 64-bit bit-vector), ite-merging and the numba/numpy min/max semantics.

Nothing here knows about spatialpandas; the interpreter in core.py executes the repository's own
source over these values.
"""
import math
import operator

import numpy as np
import z3


class NeedConcrete(Exception):
    """A concrete value was required from a symbolic one (fork site in merge mode)."""
    def __init__(self, what):
        super().__init__(str(what)[:200])
        self.what = what


class Unsupported(Exception):
    """The construct is outside the modelled subset: the obligation becomes inconclusive."""


class PathRaise(Exception):
    """The interpreted code executed a `raise` on the current path."""
    def __init__(self, exc, text=''):
        super().__init__(text)
        self.exc = exc
        self.text = text


class OutOfBounds(Exception):
    """The interpreted code indexed outside an array (numba does not bounds-check)."""


class Poison:
    """value read from outside an array: numba reads whatever is there.  Holding it is harmless, any use of it
    (arithmetic, comparison, store into a result) makes the obligation inconclusive."""
    def __init__(self, why):
        self.why = why

    def _bad(self, *a, **k):
        raise OutOfBounds("use of a value read out of bounds: " + self.why)
    __add__ = __radd__ = __sub__ = __rsub__ = __mul__ = __rmul__ = __truediv__ = __rtruediv__ = _bad
    __lt__ = __le__ = __gt__ = __ge__ = __eq__ = __ne__ = __neg__ = __bool__ = __pow__ = __index__ = _bad
    __and__ = __or__ = __xor__ = __invert__ = __float__ = __int__ = _bad
    __hash__ = None


# ------------------------------------------------------------------ booleans with constant folding
class SBool:
    __slots__ = ('t',)

    def __init__(self, t):
        self.t = t

    def __bool__(self):
        raise NeedConcrete(self)

    def __repr__(self):
        return f"SBool({self.t})"

    def __and__(self, o): return And(self, o)
    def __rand__(self, o): return And(o, self)
    def __or__(self, o): return Or(self, o)
    def __ror__(self, o): return Or(o, self)
    def __xor__(self, o): return Xor(self, o)
    def __rxor__(self, o): return Xor(o, self)
    def __invert__(self): return Not(self)
    def __eq__(self, o): return Not(Xor(self, o))
    def __ne__(self, o): return Xor(self, o)
    __hash__ = None


def _b(x):
    if isinstance(x, SBool):
        return x.t
    if isinstance(x, (bool, np.bool_)):
        return bool(x)
    if z3.is_expr(x):
        return x
    if isinstance(x, (Num, SInt)):
        return _b(x != 0)
    if isinstance(x, (int, float, np.integer, np.floating)):
        return bool(x)
    raise TypeError(f"_b({x!r})")


def wrapb(t):
    if isinstance(t, (bool, np.bool_)):
        return bool(t)
    if isinstance(t, SBool):
        return t
    if z3.is_true(t):
        return True
    if z3.is_false(t):
        return False
    return SBool(t)


def And(*xs):
    out = []
    for x in xs:
        x = _b(x)
        if x is False:
            return False
        if x is True:
            continue
        out.append(x)
    if not out:
        return True
    return wrapb(z3.And(*out) if len(out) > 1 else out[0])


def Or(*xs):
    out = []
    for x in xs:
        x = _b(x)
        if x is True:
            return True
        if x is False:
            continue
        out.append(x)
    if not out:
        return False
    return wrapb(z3.Or(*out) if len(out) > 1 else out[0])


def Not(x):
    x = _b(x)
    if isinstance(x, bool):
        return not x
    if z3.is_not(x):
        return wrapb(x.arg(0))
    return wrapb(z3.Not(x))


def Xor(a, b):
    a = _b(a)
    b = _b(b)
    if isinstance(a, bool):
        return Not(b) if a else wrapb(b)
    if isinstance(b, bool):
        return Not(a) if b else wrapb(a)
    return wrapb(z3.Xor(a, b))


def tz(x):
    """-> z3 Bool term"""
    x = _b(x)
    return z3.BoolVal(x) if isinstance(x, bool) else x


# ------------------------------------------------------------------ numbers
def _cv(o):
    """concrete python/numpy number -> (v, nan, inf)"""
    if hasattr(o, 'item'):
        o = o.item()
    if isinstance(o, bool):
        return int(o), False, 0
    if isinstance(o, float):
        if math.isnan(o):
            return 0, True, 0
        if math.isinf(o):
            return 0, False, (1 if o > 0 else -1)
        if o == int(o):
            return int(o), False, 0
        return z3.RealVal(repr(o)), False, 0
    return int(o), False, 0


# multiplication mode: 'exact' (z3 arithmetic) or 'uf' (symbolic*symbolic -> uninterpreted mul)
MUL = {'mode': 'exact', 'f': None, 'count': 0}


def set_mul_mode(mode):
    MUL['mode'] = mode


def zmul(a, b):
    sym_a = z3.is_expr(a) and not (z3.is_int_value(a) or z3.is_rational_value(a))
    sym_b = z3.is_expr(b) and not (z3.is_int_value(b) or z3.is_rational_value(b))
    if MUL['mode'] == 'exact' or not (sym_a and sym_b):
        return a * b
    if MUL['f'] is None:
        MUL['f'] = z3.Function('mul', z3.IntSort(), z3.IntSort(), z3.IntSort())
    MUL['count'] += 1
    return MUL['f'](a, b)


def _is0(i):
    return isinstance(i, int) and i == 0


# float32 mode (opt-in, integer-valued operands only): Num.f32 marks a value numba types as float32; a sum or difference
# of two such values is rounded to float32 (round-half-even); mixed float32/float64 arithmetic is float64 (exact here)
F32 = {'on': False, 'rounded': 0, 'sum_exp': 25, 'prod_exp': 50, 'defs': None}
_B24 = 1 << 24


def rnd32_int(d, maxexp=25):
    """float32 rounding (round-half-even) of an integer d with |d| <= 2^(maxexp+1) (z3 Int term or python int): exact up
    to 2^24; in the binade [2^e, 2^(e+1)) the result is the nearest multiple of 2^(e-23), ties to the even multiple"""
    if not z3.is_expr(d):
        d = z3.IntVal(int(d))
    a = z3.If(d >= 0, d, -d)

    def round_to(u):
        q, rem = a / u, a % u
        return q * u + z3.If(z3.Or(rem > u // 2, z3.And(rem == u // 2, q % 2 == 1)), u, 0)
    r = round_to(1 << (maxexp - 23))
    for e in range(maxexp - 1, 23, -1):
        r = z3.If(a < (1 << (e + 1)), round_to(1 << (e - 23)), r)
    r = z3.If(a <= _B24, a, r)
    return z3.If(d >= 0, r, -r)


class Num:
    """symbolic float: v (z3 arith term or python number), nan (bool | z3 Bool), inf (0 | +-1 | z3 Int)

    The value is `nan` if nan, `inf*infinity` if inf != 0, else v.  Comparisons follow IEEE 754.
    """
    __slots__ = ('v', 'nan', 'inf', 'f32')

    def __init__(self, v, nan=False, inf=0, f32=False):
        if isinstance(nan, SBool):
            nan = nan.t
        self.v, self.nan, self.inf, self.f32 = v, nan, inf, f32

    def __repr__(self):
        return f"Num({self.v}, nan={self.nan}, inf={self.inf})"

    def __bool__(self):
        raise NeedConcrete(self)

    def __index__(self):
        raise NeedConcrete(self)

    @staticmethod
    def parts(o):
        if isinstance(o, Num):
            return o.v, o.nan, o.inf
        return _cv(o)

    @staticmethod
    def lift(o):
        return o if isinstance(o, Num) else Num(*_cv(o))

    def is_plain(self):
        return self.nan is False and _is0(self.inf)

    def _bin(self, o, f, kind=None):
        if isinstance(o, SInt):
            raise Unsupported("float op machine-int")
        if not isinstance(o, (Num, int, float, np.integer, np.floating)):
            return NotImplemented
        ov, on, oi = Num.parts(o)
        if not (_is0(self.inf) and _is0(oi)):
            return self._bin_inf(Num(ov, on, oi), kind)
        nan = Or(wrapb(self.nan), wrapb(on))
        if F32['on'] and self.f32 and isinstance(o, Num) and o.f32:
            # numba types float32 (op) float32 as float32: the result is rounded to 24 significant bits
            if kind in ('add', 'sub', 'rsub', 'mul'):
                # operands are integers within F32['sum_exp'] / F32['prod_exp'] bits (asserted by the query's domain)
                F32['rounded'] += 1
                rv = rnd32_int(f(self.v, ov), F32['prod_exp'] if kind == 'mul' else F32['sum_exp'])
                if F32.get('defs') is not None:        # name the rounded value (keeps the terms small); the definition goes to the solver
                    nv = z3.Int(f"f32_{len(F32['defs'])}")
                    F32['defs'].append(nv == rv)
                    rv = nv
                return Num(rv, nan, 0, True)
            raise Unsupported(f"float32 {kind} float32 (only sums, differences and products of float32 operands are modelled)")
        return Num(f(self.v, ov), nan)

    def _sign(self):
        """-1/0/+1 as a z3 Int term (sign of the extended real)"""
        v = self.v if z3.is_expr(self.v) else (z3.RealVal(repr(self.v)) if isinstance(self.v, float) else z3.IntVal(self.v))
        sg = z3.If(v > 0, 1, z3.If(v < 0, -1, 0))
        if _is0(self.inf):
            return sg
        inf = self.inf if z3.is_expr(self.inf) else z3.IntVal(self.inf)
        return z3.If(inf != 0, inf, sg)

    def _bin_inf(self, b, kind):
        """IEEE arithmetic when an operand may be +-inf: add / sub / mul (overflow to inf is not modelled)"""
        a = self
        if kind == 'rsub':
            a, b, kind = b, a, 'sub'
        if kind == 'sub':
            b, kind = -b, 'add'
        ia = a.inf if z3.is_expr(a.inf) else z3.IntVal(a.inf)
        ib = b.inf if z3.is_expr(b.inf) else z3.IntVal(b.inf)
        if kind == 'add':
            nan = Or(wrapb(a.nan), wrapb(b.nan), wrapb(z3.And(ia != 0, ib != 0, ia != ib)))
            inf = z3.If(ia != 0, ia, ib)
            return Num(a.v + b.v, nan, z3.simplify(inf))
        if kind == 'mul':
            av = a.v if z3.is_expr(a.v) else z3.IntVal(a.v) if not isinstance(a.v, float) else z3.RealVal(repr(a.v))
            bv = b.v if z3.is_expr(b.v) else z3.IntVal(b.v) if not isinstance(b.v, float) else z3.RealVal(repr(b.v))
            za = z3.And(ia == 0, av == 0)
            zb = z3.And(ib == 0, bv == 0)
            nan = Or(wrapb(a.nan), wrapb(b.nan), wrapb(z3.And(ia != 0, zb)), wrapb(z3.And(ib != 0, za)))
            sa, sb = a._sign(), b._sign()
            inf = z3.If(z3.Or(ia != 0, ib != 0), z3.If(sa == sb, 1, -1), 0)
            return Num(zmul(a.v, b.v), nan, z3.simplify(inf))
        if kind in ('div', 'rdiv') and kind == 'div' and not z3.is_expr(b.v) and b.is_plain() and b.v != 0:
            # division by a concrete finite non-zero number
            sgn = 1 if b.v > 0 else -1
            return Num(Num._div(a.v, b.v), a.nan, z3.simplify(ia * sgn))
        raise Unsupported("arithmetic on possibly-infinite value")

    def __add__(self, o): return self._bin(o, operator.add, 'add')
    def __radd__(self, o): return self._bin(o, lambda a, b: b + a, 'add')
    def __sub__(self, o): return self._bin(o, operator.sub, 'sub')
    def __rsub__(self, o): return self._bin(o, lambda a, b: b - a, 'rsub')
    def __mul__(self, o): return self._bin(o, zmul, 'mul')
    def __rmul__(self, o): return self._bin(o, lambda a, b: zmul(b, a), 'mul')

    @staticmethod
    def _div(a, b):
        if isinstance(b, (int, float)) and not z3.is_expr(b):
            if b == 0:
                raise Unsupported("division by concrete zero")
            if isinstance(a, int) and not z3.is_expr(a):
                q = a / b
                return int(q) if q == int(q) else z3.RealVal(a) / z3.RealVal(b)
        ar = z3.ToReal(a) if z3.is_expr(a) and z3.is_int(a) else (z3.RealVal(a) if not z3.is_expr(a) else a)
        br = z3.ToReal(b) if z3.is_expr(b) and z3.is_int(b) else (z3.RealVal(b) if not z3.is_expr(b) else b)
        return ar / br

    def __truediv__(self, o): return self._bin(o, Num._div, 'div')
    def __rtruediv__(self, o): return self._bin(o, lambda a, b: Num._div(b, a), 'rdiv')

    def __neg__(self):
        return Num(-self.v, self.nan, -self.inf, self.f32)

    def __pos__(self):
        return self

    def __pow__(self, o):
        if isinstance(o, (int, float)) and o == 2:
            return self * self
        raise Unsupported("pow")

    def _cmp(self, o, op):
        av, an, ai = self.v, self.nan, self.inf
        bv, bn, bi = Num.parts(o)
        finite = _is0(ai) and _is0(bi)
        av, bv = _coerce_pair(av, bv)
        if op == 'lt':
            core = wrapb(av < bv) if finite else Or(wrapb(ai < bi), And(wrapb(ai == 0), wrapb(bi == 0), wrapb(av < bv)))
        else:
            core = wrapb(av == bv) if finite else And(wrapb(ai == bi), Or(wrapb(ai != 0), wrapb(av == bv)))
        return And(Not(wrapb(an)), Not(wrapb(bn)), core)

    def __lt__(self, o): return self._cmp(o, 'lt')
    def __gt__(self, o): return Num.lift(o)._cmp(self, 'lt')
    def __le__(self, o): return Or(self._cmp(o, 'lt'), self._cmp(o, 'eq'))

    def __ge__(self, o):
        o = Num.lift(o)
        return Or(o._cmp(self, 'lt'), o._cmp(self, 'eq'))

    def __eq__(self, o): return self._cmp(o, 'eq')
    def __ne__(self, o): return Not(self._cmp(o, 'eq'))
    __hash__ = None


def _coerce_pair(a, b):
    """make python-number / z3 Int / z3 Real operands comparable"""
    if z3.is_expr(a) and z3.is_expr(b):
        if z3.is_int(a) and z3.is_real(b):
            a = z3.ToReal(a)
        elif z3.is_real(a) and z3.is_int(b):
            b = z3.ToReal(b)
        return a, b
    if isinstance(a, float) and not z3.is_expr(a):
        a = z3.RealVal(repr(a))
        return _coerce_pair(a, b)
    if isinstance(b, float) and not z3.is_expr(b):
        b = z3.RealVal(repr(b))
        return _coerce_pair(a, b)
    if isinstance(a, bool):
        a = int(a)
    if isinstance(b, bool):
        b = int(b)
    return a, b


def lt(a, b):
    if isinstance(a, Num) or isinstance(b, Num):
        return Num.lift(a) < b
    return a < b


def gt(a, b):
    return lt(b, a)


def _iteb(c, a, b):
    if isinstance(a, bool) and isinstance(b, bool) and a == b:
        return a
    r = wrapb(z3.If(c, tz(a), tz(b)))
    return r.t if isinstance(r, SBool) else r


def _itev(c, a, b):
    if not z3.is_expr(a) and not z3.is_expr(b):
        if a == b:
            return a
    a, b = _coerce_pair(a, b)
    if not z3.is_expr(a) and not z3.is_expr(b):
        a = z3.IntVal(a)
    return z3.If(c, a, b)


INTDOM = {'mode': 'int'}      # how differing concrete python ints are merged: z3 Int ('int') or BitVec ('bv')


def ite(c, a, b):
    c = _b(c)
    if c is True:
        return a
    if c is False:
        return b
    if a is b:
        return a
    if isinstance(a, Poison):
        return a
    if isinstance(b, Poison):
        return b
    if isinstance(a, np.generic):
        a = a.item()
    if isinstance(b, np.generic):
        b = b.item()
    if isinstance(a, (bool, SBool)) and isinstance(b, (bool, SBool)):
        if isinstance(a, bool) and isinstance(b, bool) and a == b:
            return a
        return wrapb(z3.If(c, tz(a), tz(b)))
    if isinstance(a, SInt) or isinstance(b, SInt) or (
            INTDOM['mode'] == 'bv' and type(a) is int and type(b) is int and a != b):
        if isinstance(a, (Num, float)) or isinstance(b, (Num, float)):
            raise Unsupported("merge of machine int and float")
        return SInt(z3.If(c, SInt.tv(a), SInt.tv(b)))
    if isinstance(a, (Num, int, float)) and isinstance(b, (Num, int, float)):
        if not isinstance(a, Num) and not isinstance(b, Num) and (a == b or (a != a and b != b)):
            return a
        av, an, ai = Num.parts(a)
        bv, bn, bi = Num.parts(b)
        return Num(_itev(c, av, bv), _iteb(c, an, bn), _itev(c, ai, bi) if not (_is0(ai) and _is0(bi)) else 0,
                   isinstance(a, Num) and isinstance(b, Num) and a.f32 and b.f32)
    if isinstance(a, tuple) and isinstance(b, tuple) and len(a) == len(b):
        return tuple(ite(c, x, y) for x, y in zip(a, b))
    if isinstance(a, list) and isinstance(b, list) and len(a) == len(b):
        return [ite(c, x, y) for x, y in zip(a, b)]
    if a is None and b is None:
        return None
    if isinstance(a, np.ndarray) and isinstance(b, np.ndarray) and a.shape == b.shape:
        if a.dtype != object and b.dtype != object and np.array_equal(a, b):
            return a
        out = np.empty(a.shape, dtype=object)
        for idx in np.ndindex(a.shape):
            out[idx] = ite(c, a[idx], b[idx])
        return out
    try:
        if type(a) is type(b) and a == b:
            return a
    except Exception:
        pass
    raise NeedConcrete(('merge', type(a).__name__, type(b).__name__))


def isfinite(x):
    if isinstance(x, Num):
        return And(Not(wrapb(x.nan)), x.inf == 0 if isinstance(x.inf, int) else wrapb(x.inf == 0))
    if isinstance(x, np.ndarray):
        if x.dtype != object:
            return np.isfinite(x)
        return vec1(isfinite, x)
    if isinstance(x, SInt):
        return True
    return bool(np.isfinite(x))


def isnan(x):
    if isinstance(x, Num):
        return wrapb(x.nan)
    if isinstance(x, np.ndarray):
        if x.dtype != object:
            return np.isnan(x)
        return vec1(isnan, x)
    if isinstance(x, SInt):
        return False
    return bool(np.isnan(x))


def tighten(out):
    """object array with only concrete bools -> bool array (so it can be used as a mask)"""
    if out.dtype != object:
        return out
    flat = out.ravel()
    if len(flat) and all(isinstance(x, (bool, np.bool_)) for x in flat):
        return out.astype(bool)
    return out


def vec1(f, a):
    out = np.empty(a.shape, dtype=object)
    for idx in np.ndindex(a.shape):
        out[idx] = f(a[idx])
    return tighten(out)


def vec2(f, a, b):
    aa = a if isinstance(a, np.ndarray) else _as_obj(a)
    bb = b if isinstance(b, np.ndarray) else _as_obj(b)
    a_, b_ = np.broadcast_arrays(aa, bb)
    out = np.empty(a_.shape, dtype=object)
    for idx in np.ndindex(a_.shape):
        x, y = a_[idx], b_[idx]
        if isinstance(x, np.generic):
            x = x.item()
        if isinstance(y, np.generic):
            y = y.item()
        out[idx] = f(x, y)
    return tighten(out)


def _as_obj(x):
    if isinstance(x, (list, tuple)):
        out = np.empty(len(x), dtype=object)
        for i, e in enumerate(x):
            out[i] = e
        return out
    out = np.empty((), dtype=object)
    out[()] = x
    return out


def np_minmax(xs, is_min, skipnan=False):
    """numpy reductions: np.min/np.max propagate NaN; np.nanmin/np.nanmax skip it (NaN if all NaN)."""
    xs = [Num.lift(x) for x in xs]
    if not xs:
        raise Unsupported("min/max of empty array (numpy raises ValueError)")
    for x in xs:
        if not _is0(x.inf):
            raise Unsupported("np.min/np.max over possibly-infinite values")
    if not skipnan:
        res = xs[0].v
        for x in xs[1:]:
            a, b = _coerce_pair(x.v, res)
            c = wrapb(a < b) if is_min else wrapb(a > b)
            res = _itev(_b(c), x.v, res) if isinstance(c, SBool) else (x.v if c else res)
        nan = Or(*[wrapb(x.nan) for x in xs])
        return Num(res, nan)
    # skip NaN entries
    have = False
    res = 0
    for x in xs:
        xn = wrapb(x.nan)
        a, b = _coerce_pair(x.v, res)
        better = wrapb(a < b) if is_min else wrapb(a > b)
        take = And(Not(xn), Or(Not(have), better))
        res = _pick(take, x.v, res)
        have = Or(have, Not(xn))
    return Num(res, Not(have))


def _pick(c, a, b):
    c = _b(c)
    if c is True:
        return a
    if c is False:
        return b
    return _itev(c, a, b)


def py_min2(a, b):
    return ite(lt(b, a), b, a)      # python & numba: b if b < a else a


def py_max2(a, b):
    return ite(gt(b, a), b, a)


# ------------------------------------------------------------------ machine integers
class SInt:
    """symbolic machine integer (z3 BitVec W, numba int64 semantics)"""
    __slots__ = ('t',)
    W = 64

    def __init__(self, t):
        self.t = t

    def __repr__(self):
        return f"SInt({self.t})"

    def __bool__(self):
        raise NeedConcrete(self)

    def __index__(self):
        raise NeedConcrete(self)

    @staticmethod
    def tv(o):
        if isinstance(o, SInt):
            return o.t
        if isinstance(o, (bool, np.bool_, int, np.integer)):
            return z3.BitVecVal(int(o), SInt.W)
        raise TypeError(o)

    def _bop(self, o, f):
        try:
            ov = SInt.tv(o)
        except TypeError:
            return NotImplemented
        return SInt(z3.simplify(f(self.t, ov)))

    def __add__(s, o): return s._bop(o, lambda a, b: a + b)
    __radd__ = __add__
    def __sub__(s, o): return s._bop(o, lambda a, b: a - b)
    def __rsub__(s, o): return s._bop(o, lambda a, b: b - a)
    def __mul__(s, o): return s._bop(o, lambda a, b: a * b)
    __rmul__ = __mul__
    def __xor__(s, o): return s._bop(o, lambda a, b: a ^ b)
    __rxor__ = __xor__
    def __and__(s, o): return s._bop(o, lambda a, b: a & b)
    __rand__ = __and__
    def __or__(s, o): return s._bop(o, lambda a, b: a | b)
    __ror__ = __or__
    def __lshift__(s, o): return s._bop(o, lambda a, b: a << b)
    def __rlshift__(s, o): return s._bop(o, lambda a, b: b << a)
    def __rshift__(s, o): return s._bop(o, lambda a, b: a >> b)      # arithmetic, as int64
    def __rrshift__(s, o): return s._bop(o, lambda a, b: b >> a)
    def __mod__(s, o):
        # floored modulo, as python/numba; for a positive power-of-two modulus it is exactly the low bits
        if isinstance(o, (int, np.integer)) and not isinstance(o, bool) and int(o) > 0 and (int(o) & (int(o) - 1)) == 0:
            return s._bop(int(o) - 1, lambda a, b: a & b)
        return s._bop(o, lambda a, b: a % b)
    def __floordiv__(s, o): raise Unsupported("SInt floordiv")
    def __neg__(s): return SInt(z3.simplify(-s.t))
    def __invert__(s): return SInt(z3.simplify(~s.t))
    def _c(self, o, f): return wrapb(z3.simplify(f(self.t, SInt.tv(o))))
    def __lt__(s, o): return s._c(o, lambda a, b: a < b)
    def __le__(s, o): return s._c(o, lambda a, b: a <= b)
    def __gt__(s, o): return s._c(o, lambda a, b: a > b)
    def __ge__(s, o): return s._c(o, lambda a, b: a >= b)
    def __eq__(s, o): return s._c(o, lambda a, b: a == b)
    def __ne__(s, o): return s._c(o, lambda a, b: a != b)
    __hash__ = None


def is_sym(v):
    return isinstance(v, (Num, SBool, SInt))


def has_sym(v):
    if isinstance(v, (Num, SBool, SInt)):
        return True
    if isinstance(v, np.ndarray):
        return v.dtype == object and any(is_sym(x) for x in v.ravel())
    if isinstance(v, (tuple, list)):
        return any(has_sym(x) for x in v)
    return False
