"""pysym: a guarded-merge / forking symbolic interpreter for the numba-nopython subset of Python (and the thin
Python wrappers around it) used by spatialpandas.  It executes the *repository's own source*: function bodies are
taken from the AST of the files the imported `spatialpandas` modules were loaded from, re-read on every run.
"""
import ast
import builtins
import hashlib
import inspect
import math
import operator
import os
import sys
import types

import numpy as np
import z3

from .values import (INTDOM, MUL, And, NeedConcrete, Not, Num, Or, OutOfBounds, PathRaise, Poison, SBool, SInt, Unsupported,
                     Xor, _b, has_sym, is_sym, isfinite, isnan, ite, np_minmax, py_max2, py_min2, tighten, tz, vec1,
                     vec2, wrapb)

REPO_PKG = 'spatialpandas'


class Infeasible(Exception):
    pass


class Frame:
    def __init__(self, guard, func=None):
        self.env = {}
        self.base_guard = guard
        self.returned = False          # bool | SBool
        self.rets = []                 # (guard, value)
        self.loops = []                # stack of dicts {'broke':..., 'cont':...}
        self.func = func


BINOPS = {ast.Add: operator.add, ast.Sub: operator.sub, ast.Mult: operator.mul, ast.Div: operator.truediv,
          ast.FloorDiv: operator.floordiv, ast.Mod: operator.mod, ast.Pow: operator.pow,
          ast.BitAnd: operator.and_, ast.BitOr: operator.or_, ast.BitXor: operator.xor,
          ast.LShift: operator.lshift, ast.RShift: operator.rshift}
CMPOPS = {ast.Lt: operator.lt, ast.LtE: operator.le, ast.Gt: operator.gt, ast.GtE: operator.ge,
          ast.Eq: operator.eq, ast.NotEq: operator.ne}


class Module:
    """functions parsed from a repo source file (re-read from disk on every run)"""
    def __init__(self, path, pymod=None):
        self.path = path
        self.pymod = pymod
        self.src = open(path).read()
        self.tree = ast.parse(self.src)
        self.funcs = {}
        self._collect(self.tree.body, '')

    def _collect(self, body, prefix):
        for node in body:
            if isinstance(node, (ast.FunctionDef,)):
                self.funcs[prefix + node.name] = node
            elif isinstance(node, ast.ClassDef):
                self._collect(node.body, prefix + node.name + '.')
            elif isinstance(node, (ast.If, ast.Try)):
                self._collect(node.body, prefix)
                for h in getattr(node, 'handlers', []):
                    self._collect(h.body, prefix)
                self._collect(node.orelse, prefix)


class SelfObj:
    """synthetic instance of a class whose methods are interpreted (used for the numba jitclass)"""
    def __init__(self, cls, module, **kw):
        self._cls = cls
        self._module = module
        self.__dict__.update(kw)


class Func:
    def __init__(self, node, module, qualname, closure=None):
        self.node, self.module, self.qualname, self.closure = node, module, qualname, closure

    def __repr__(self):
        return f"<Func {self.qualname}>"


class BoundFunc:
    def __init__(self, f, obj):
        self.f, self.obj = f, obj


class Unmergeable:
    """return value of a call whose alternative returns could not be merged; any use of it is a fork site"""
    def __init__(self, why):
        object.__setattr__(self, '_why', why)

    def __getattr__(self, name):
        raise NeedConcrete(object.__getattribute__(self, '_why'))

    def __bool__(self):
        raise NeedConcrete(self._why)

    def __iter__(self):
        raise NeedConcrete(object.__getattribute__(self, '_why'))


class _NdMethod:
    def __init__(self, base, attr):
        self.base, self.attr = base, attr


class Stub:
    """harness-provided replacement for a repo function (listed in the evidence)"""
    def __init__(self, fn, name):
        self.fn, self.name = fn, name


def _arr_obj(shape, val):
    out = np.empty(shape, dtype=object)
    for i in np.ndindex(out.shape):
        out[i] = val
    return out


class NPModel:
    """model of the numpy namespace as used inside the kernels and wrappers"""
    inf = float('inf')
    nan = float('nan')
    pi = math.pi
    _DATA_MOVING = {'concatenate', 'stack', 'atleast_2d', 'atleast_1d', 'broadcast_to', 'ravel',
                    'reshape', 'copy', 'hstack', 'vstack', 'take', 'repeat', 'tile', 'flip', 'roll', 'squeeze',
                    'expand_dims', 'transpose', 'append'}

    def __init__(self, interp):
        self._it = interp
        for n in ('bool_', 'int64', 'int32', 'int16', 'int8', 'uint64', 'uint32', 'uint16', 'uint8', 'float64',
                  'float32', 'intp', 'dtype', 'ndarray', 'integer', 'floating', 'generic', 'newaxis', 'exceptions'):
            setattr(self, n, getattr(np, n))

    # value-dependent functions need models
    def isfinite(self, x): return isfinite(x)
    def isnan(self, x): return isnan(x)

    def _dt(self, dtype):
        it = self._it
        for fn, t in ((it.b_bool, bool), (it.b_int, np.int64), (it.b_float, np.float64)):
            if dtype == fn:
                return np.dtype(t)
        return np.dtype(dtype)

    def _alloc(self, shape, val, dtype):
        dt = self._dt(dtype)
        if isinstance(shape, (Num, SBool, SInt)) or (isinstance(shape, tuple) and any(is_sym(s) for s in shape)):
            raise NeedConcrete(shape)
        out = _arr_obj(shape, val)
        self._it.sdtype[id(out)] = (out, dt)
        return out

    def zeros(self, shape, dtype=np.float64):
        dt = self._dt(dtype)
        return self._alloc(shape, False if dt.kind == 'b' else (0 if dt.kind in 'iu' else 0.0), dt)

    def ones(self, shape, dtype=np.float64):
        dt = self._dt(dtype)
        return self._alloc(shape, True if dt.kind == 'b' else (1 if dt.kind in 'iu' else 1.0), dt)

    def empty(self, shape, dtype=np.float64):
        return self.zeros(shape, dtype)

    def full(self, shape, val, dtype=None):
        if dtype is None:
            dtype = np.float64 if isinstance(val, (float, Num)) else (np.bool_ if isinstance(val, bool) else np.int64)
        return self._alloc(shape, val, dtype)

    def zeros_like(self, a, dtype=None): return self.zeros(a.shape, dtype or self._it.dtype_of(a))

    def min(self, a, axis=None): return self._red(a, True, False, axis)
    def max(self, a, axis=None): return self._red(a, False, False, axis)
    def nanmin(self, a, axis=None): return self._red(a, True, True, axis)
    def nanmax(self, a, axis=None): return self._red(a, False, True, axis)
    amin = min
    amax = max

    def _red(self, a, is_min, skipnan, axis):
        if hasattr(a, 'values') and not isinstance(a, np.ndarray):
            a = a.values
        a = np.asarray(a) if not isinstance(a, np.ndarray) else a
        if axis is not None:
            if not isinstance(axis, (int, np.integer)):
                raise Unsupported("reduction with non-integer axis")
            f = (np.nanmin if is_min else np.nanmax) if skipnan else (np.min if is_min else np.max)
            if a.dtype != object:
                if a.shape[int(axis)] == 0:
                    raise PathRaise(ValueError, 'zero-size array to reduction operation which has no identity')
                return self._it.lift(f(a, axis=int(axis)))
            m = np.moveaxis(a, int(axis), -1)
            if m.shape[-1] == 0:
                raise PathRaise(ValueError, 'zero-size array to reduction operation which has no identity')
            out = np.empty(m.shape[:-1], dtype=object)
            for i in np.ndindex(out.shape):
                out[i] = np_minmax(list(m[i]), is_min, skipnan)
            e = self._it.sdtype.get(id(a))
            if e is not None and e[0] is a:
                self._it.sdtype[id(out)] = (out, e[1])
            return out
        if a.size == 0:
            raise PathRaise(ValueError, 'zero-size array to reduction operation which has no identity')
        if a.dtype != object:
            f = (np.nanmin if is_min else np.nanmax) if skipnan else (np.min if is_min else np.max)
            return f(a).item()
        return np_minmax(list(a.ravel()), is_min, skipnan)

    def any(self, a, axis=None):
        if isinstance(a, (SBool, bool, np.bool_)):
            return wrapb(a) if isinstance(a, SBool) else bool(a)
        return Or(*list(np.asarray(a, dtype=object).ravel()))

    def all(self, a, axis=None):
        if isinstance(a, (SBool, bool, np.bool_)):
            return wrapb(a) if isinstance(a, SBool) else bool(a)
        return And(*list(np.asarray(a, dtype=object).ravel()))

    def ceil(self, x):
        if is_sym(x):
            raise Unsupported("ceil(sym)")
        return np.ceil(x)

    def log2(self, x):
        if is_sym(x):
            raise Unsupported("log2(sym)")
        return np.log2(x)

    def arange(self, *a, **k):
        if has_sym(a):
            raise NeedConcrete(a)
        return np.arange(*a, **k)

    def argsort(self, a, **k):
        if isinstance(a, np.ndarray) and a.dtype == object:
            if any(is_sym(x) for x in a.ravel()):
                raise Unsupported("argsort of symbolic values (stub the producer instead)")
            a = np.array([x for x in a.ravel()])
        return np.argsort(a, **k)

    def sort(self, a, **k):
        if isinstance(a, np.ndarray) and a.dtype == object:
            if any(is_sym(x) for x in a.ravel()):
                raise Unsupported("sort of symbolic values")
            a = np.array(list(a.ravel()))
        return np.sort(a, **k)

    def nonzero(self, a):
        if isinstance(a, np.ndarray) and a.dtype == object:
            a = self._it.concretize_mask(a)
        return np.nonzero(a)

    def _ew2(self, f, a, b):
        if isinstance(a, np.ndarray) or isinstance(b, np.ndarray):
            return vec2(f, a, b)
        return f(a, b)

    def minimum(self, a, b):
        """np.minimum: element-wise, NaN propagates"""
        def f(x, y):
            if not (is_sym(x) or is_sym(y)):
                return float(np.minimum(x, y)) if isinstance(x, float) or isinstance(y, float) else min(x, y)
            x, y = Num.lift(x), Num.lift(y)
            r = ite(y < x, y, x)
            r = ite(isnan(y), y, r)
            return ite(isnan(x), x, r)
        return self._ew2(f, a, b)

    def maximum(self, a, b):
        def f(x, y):
            if not (is_sym(x) or is_sym(y)):
                return float(np.maximum(x, y)) if isinstance(x, float) or isinstance(y, float) else max(x, y)
            x, y = Num.lift(x), Num.lift(y)
            r = ite(y > x, y, x)
            r = ite(isnan(y), y, r)
            return ite(isnan(x), x, r)
        return self._ew2(f, a, b)

    def fmin(self, a, b):
        """np.fmin: NaN is ignored unless both are NaN"""
        def f(x, y):
            if not (is_sym(x) or is_sym(y)):
                return float(np.fmin(x, y))
            x, y = Num.lift(x), Num.lift(y)
            r = ite(y < x, y, x)
            r = ite(isnan(x), y, r)
            return ite(And(isnan(y), Not(isnan(x))), x, r)
        return self._ew2(f, a, b)

    def fmax(self, a, b):
        def f(x, y):
            if not (is_sym(x) or is_sym(y)):
                return float(np.fmax(x, y))
            x, y = Num.lift(x), Num.lift(y)
            r = ite(y > x, y, x)
            r = ite(isnan(x), y, r)
            return ite(And(isnan(y), Not(isnan(x))), x, r)
        return self._ew2(f, a, b)

    def where(self, c, a=None, b=None):
        if a is None:
            return self.nonzero(c)
        if not has_sym(c) and not has_sym(a) and not has_sym(b):
            return np.where(c, a, b)
        ca = c if isinstance(c, np.ndarray) else np.asarray(c, dtype=object)
        aa = a if isinstance(a, np.ndarray) else np.asarray(a, dtype=object)
        bb = b if isinstance(b, np.ndarray) else np.asarray(b, dtype=object)
        ca, aa, bb = np.broadcast_arrays(ca, aa, bb)
        out = np.empty(ca.shape, dtype=object)
        for i in np.ndindex(ca.shape):
            x, y = aa[i], bb[i]
            x = x.item() if isinstance(x, np.generic) else x
            y = y.item() if isinstance(y, np.generic) else y
            cc = ca[i]
            out[i] = ite(cc, x, y) if isinstance(cc, SBool) else (x if cc else y)
        return out

    def isinf(self, x):
        if isinstance(x, np.ndarray):
            return vec1(self.isinf, x) if x.dtype == object else np.isinf(x)
        if isinstance(x, Num):
            return And(Not(isnan(x)), Not(isfinite(x)))
        return bool(np.isinf(x))

    def isclose(self, a, b, rtol=1e-05, atol=1e-08, equal_nan=False):
        """np.isclose on finite values: |a - b| <= atol + rtol * |b|"""
        def f(x, y):
            if not (is_sym(x) or is_sym(y)):
                return bool(np.isclose(x, y, rtol=rtol, atol=atol, equal_nan=equal_nan))
            x, y = Num.lift(x), Num.lift(y)
            d = self._it.b_abs(x - y)
            return And(Not(isnan(x)), Not(isnan(y)), d <= self._it.b_abs(y) * rtol + atol)
        return self._ew2(f, a, b)

    def logical_and(self, a, b): return self._ew2(lambda x, y: And(x, y), a, b)
    def logical_or(self, a, b): return self._ew2(lambda x, y: Or(x, y), a, b)

    def logical_not(self, a):
        return vec1(Not, a) if isinstance(a, np.ndarray) else Not(a)

    def sum(self, a, axis=None):
        if axis is not None:
            raise Unsupported("np.sum with axis")
        a = np.asarray(a, dtype=object) if not isinstance(a, np.ndarray) else a
        if a.dtype != object:
            return a.sum()
        r = 0
        for x in a.ravel():
            r = self._it.binop(ast.Add, r, ite(x, 1, 0) if isinstance(x, (SBool, bool, np.bool_)) else x)
        return r

    def count_nonzero(self, a):
        return self.sum(vec1(lambda x: ite(x, 1, 0) if isinstance(x, SBool) else int(bool(x)), np.asarray(a, dtype=object)))

    def asarray(self, a, dtype=None, **kw):
        """np.asarray: the SAME array object when no conversion is needed (this matters: callers may then write into
        the caller's own array), otherwise a converted copy"""
        if isinstance(a, np.ndarray) and a.dtype == object:
            if dtype is None or self._dt(dtype) == self._it.dtype_of(a):
                return a
            return self._it.ndmethod(a, 'astype', [dtype], {}, True)
        if has_sym(a):
            seq = list(a)
            out = np.empty(len(seq), dtype=object)
            for i, x in enumerate(seq):
                out[i] = x
            self._it.sdtype[id(out)] = (out, self._dt(dtype) if dtype is not None else np.dtype(np.float64))
            if dtype is not None:
                for i in range(len(seq)):
                    out[i] = self._it.store_conv(out, out[i])
            return out
        return self._it.lift(np.asarray(self._it.typed(a), **({'dtype': dtype} if dtype is not None else {}), **kw))

    def array(self, a, dtype=None, copy=True, **kw):
        r = self.asarray(a, dtype=dtype)
        if r is a and copy:
            r = self._it.ndmethod(a, 'copy', [], {}, True)
        return r

    def isscalar(self, x):
        return isinstance(x, (Num, SInt, SBool)) or np.isscalar(x)

    def sqrt(self, x): return self._it.b_sqrt(x)

    def abs(self, x): return self._it.b_abs(x)

    def __getattr__(self, name):
        real = getattr(np, name)
        if not callable(real) or isinstance(real, type):
            return real
        it = self._it

        def f(*a, **k):
            if not (has_sym(a) or has_sym(tuple(k.values()))):
                a = tuple(it.typed(x) for x in a)
                k = {kk: it.typed(v) for kk, v in k.items()}
                return it.lift(real(*a, **k))
            if name in NPModel._DATA_MOVING:
                return it.lift(real(*a, **k))
            raise Unsupported(f"np.{name} on symbolic values")
        f.__name__ = 'np.' + name
        f._pysym_model = True
        return f


class Explorer:
    """replay-based DFS over the feasible directions of every symbolic decision (fork mode)"""
    def __init__(self, assumptions=(), max_paths=200000):
        self.solver = z3.Solver()
        self.solver.add(*assumptions)
        self.work = [[]]
        self.paths = 0
        self.checks = 0
        self.max_paths = max_paths
        self.script = []
        self.pos = 0
        self.pc = []
        self.solver_s = 0.0
        self.slice_feasibility = False
        self._vcache = {}

    def start(self, script):
        self.script = list(script)
        self.pos = 0
        self.pc = []

    def _lit_vars(self, e):
        key = e.get_id()
        ent = self._vcache.get(key)
        c = ent[1] if ent is not None else None        # the entry keeps `e` alive, so its id cannot be reused
        if c is None:
            c, todo, seen = set(), [e], set()
            while todo:
                x = todo.pop()
                if x.get_id() in seen:
                    continue
                seen.add(x.get_id())
                if z3.is_const(x) and x.decl().kind() == z3.Z3_OP_UNINTERPRETED:
                    c.add(x.get_id())
                todo.extend(x.children())
            self._vcache[key] = (e, c)
        return c

    def relevant_pc(self, t):
        """path-condition literals in the cone of influence of t (transitively sharing a variable).  With
        slice_feasibility the feasibility of a direction is decided against these only: dropping literals can only make
        more directions feasible, so every real path is still explored (and the per-path obligations are decided under
        their own path condition); when the dropped literals share no variable with the rest the answer is exact."""
        tv = set(self._lit_vars(t))
        lits = [(self._lit_vars(l), l) for l in self.pc]
        rel, rest = [], lits
        while True:
            hit = [(v, l) for v, l in rest if v & tv]
            if not hit:
                return rel
            rest = [(v, l) for v, l in rest if not (v & tv)]
            for v, l in hit:
                tv |= v
                rel.append(l)

    def feasible(self, t):
        import time
        t0 = time.time()
        self.solver.push()
        self.solver.add(*(self.relevant_pc(t) if self.slice_feasibility else self.pc))
        self.solver.add(t)
        r = str(self.solver.check())
        self.solver.pop()
        self.checks += 1
        self.solver_s += time.time() - t0
        if r == 'unknown':
            # undecided feasibility: explore the direction anyway. This is sound for verification - every path
            # obligation is `path condition => property`, decided by the solver - it only costs extra paths.
            self.unknown_feasibility = getattr(self, 'unknown_feasibility', 0) + 1
            return True
        return r == 'sat'

    def decide(self, cond):
        t = tz(cond)
        if self.pos < len(self.script):
            choice = self.script[self.pos]
        else:
            can_t = self.feasible(t)
            can_f = self.feasible(z3.Not(t))
            if can_t and can_f:
                self.work.append(self.script + [False])
                choice = True
            elif can_t:
                choice = True
            elif can_f:
                choice = False
            else:
                raise Infeasible()
            self.script.append(choice)
        self.pos += 1
        self.pc.append(t if choice else z3.Not(t))
        return choice


class SymBytes:
    """bytes of an array of symbolic floats, usable as a dict key: equal iff element-wise the same value (NaN equals NaN:
    the repository only produces the canonical NaN); equality is decided by forking (Explorer mode)"""
    _pysym_model = True

    def __init__(self, it, vals):
        self.it, self.vals = it, [Num.lift(v) if not isinstance(v, (SBool, SInt)) else v for v in vals]

    def __hash__(self):
        return 0

    def __eq__(self, other):
        if not isinstance(other, SymBytes) or len(other.vals) != len(self.vals):
            return False
        conds = []
        for a, b in zip(self.vals, other.vals):
            if isinstance(a, Num) and isinstance(b, Num):
                conds.append(Or(And(wrapb(a.nan), wrapb(b.nan)), a == b))
            else:
                conds.append(a == b)
        c = self.it.truth(And(*conds))
        if not isinstance(c, bool):
            raise NeedConcrete(c)
        return c


class Interp:
    def __init__(self, repo=None):
        import spatialpandas
        self.pkg_root = os.path.dirname(os.path.abspath(spatialpandas.__file__))
        self.repo = os.path.dirname(self.pkg_root)
        self.modules = {}            # path -> Module
        self.stubs = {}              # name or qualname -> Stub
        self.np = NPModel(self)
        self.explorer = None
        self.observe = {}            # function name -> dict receiving final locals
        self.sdtype = {}             # id(array) -> (array, declared dtype)
        self.tags = {}               # concrete tag value -> symbolic value
        self.tag_dtypes = ('f', 'i')
        self.fresh_tag = None        # callable(Num) -> new tag value, set by harnesses that allow derived values
        self.encoded = {}            # qualname -> dict(file, line, sha1)
        self.stats = {'stmts': 0, 'calls': 0, 'native_calls': 0, 'lifts': 0}
        self.native_symbolic_ok = {}
        self.max_sym_while = 80
        self.max_while = 100000
        self.builtins = {
            'range': self.b_range, 'prange': self.b_range, 'len': self.b_len, 'min': self.b_min, 'max': self.b_max,
            'int': self.b_int, 'float': self.b_float, 'bool': self.b_bool, 'abs': self.b_abs,
            'enumerate': enumerate, 'zip': self.b_zip, 'tuple': self.b_tuple, 'list': self.b_list,
            'sorted': self.b_sorted, 'set': self.b_set, 'any': self.b_any, 'all': self.b_all, 'sum': self.b_sum,
            'isinstance': isinstance, 'type': type, 'slice': slice, 'getattr': getattr, 'hasattr': hasattr,
            'True': True, 'False': False, 'None': None, 'print': lambda *a, **k: None, 'str': str, 'repr': repr,
            'memoryview': memoryview, 'Ellipsis': Ellipsis, 'super': None, 'reversed': reversed, 'dict': dict,
            'id': id, 'iter': iter, 'next': next, 'map': map, 'filter': filter, 'object': object, 'divmod': self.b_divmod,
        }
        for n in dir(builtins):
            o = getattr(builtins, n)
            if isinstance(o, type) and issubclass(o, BaseException):
                self.builtins[n] = o

    # ------------------------------------------------------------------ module / function resolution
    def module_for_path(self, path, pymod=None):
        path = os.path.abspath(path)
        m = self.modules.get(path)
        if m is None:
            m = self.modules[path] = Module(path, pymod)
        if pymod is not None and m.pymod is None:
            m.pymod = pymod
        return m

    def module(self, dotted):
        """Module for e.g. 'spatialpandas.geometry._algorithms.intersection'"""
        import importlib
        pymod = importlib.import_module(dotted)
        return self.module_for_path(pymod.__file__, pymod)

    def func(self, dotted, qualname):
        m = self.module(dotted)
        if qualname not in m.funcs:
            raise Unsupported(f"anchor function {dotted}:{qualname} not found in current source")
        return Func(m.funcs[qualname], m, qualname)

    def func_of(self, pyfunc):
        """Func for a real python function object defined in the repository (None if not a repo function)"""
        pyfunc = getattr(pyfunc, 'py_func', pyfunc)
        pyfunc = inspect.unwrap(pyfunc) if hasattr(pyfunc, '__wrapped__') else pyfunc
        modname = getattr(pyfunc, '__module__', None)
        if not modname or not modname.startswith(REPO_PKG) or not hasattr(pyfunc, '__qualname__'):
            return None
        pymod = sys.modules.get(modname)
        if pymod is None or not getattr(pymod, '__file__', None):
            return None
        m = self.module_for_path(pymod.__file__, pymod)
        qn = pyfunc.__qualname__
        if '<locals>' in qn or qn not in m.funcs:
            return None
        return Func(m.funcs[qn], m, qn)

    def is_repo_obj(self, o):
        t = type(o)
        return isinstance(getattr(t, '__module__', None), str) and t.__module__.startswith(REPO_PKG) and not isinstance(o, type)

    def wrap_global(self, obj, name=None):
        if obj is np:
            return self.np
        if obj is math.sqrt:
            return self.b_sqrt
        if isinstance(obj, types.ModuleType):
            return obj
        try:
            import numba
            if obj is numba.prange:
                return self.b_range
        except Exception:
            pass
        if hasattr(obj, 'py_func') or isinstance(obj, types.FunctionType):
            f = self.func_of(obj)
            if f is not None:
                return f
        return obj

    def lookup_name(self, name, fr):
        f = fr.func
        if f is not None and f.closure is not None and name in f.closure:
            return f.closure[name]
        if name in self.stubs:
            return self.stubs[name]
        mod = f.module if f is not None else None
        if mod is not None and mod.pymod is not None and hasattr(mod.pymod, name):
            obj = getattr(mod.pymod, name)
            if name in self.builtins and obj is getattr(builtins, name, None):
                return self.builtins[name]
            return self.wrap_global(obj, name)
        if name in self.builtins:
            return self.builtins[name]
        if mod is not None and name in mod.funcs:
            return Func(mod.funcs[name], mod, name)
        raise Unsupported("name " + name)

    # ------------------------------------------------------------------ builtins
    def b_range(self, *a):
        if has_sym(a):
            raise NeedConcrete(a)
        return range(*[int(x) for x in a])

    def b_len(self, x):
        return len(x)

    def b_zip(self, *a, strict=False):
        return zip(*a, strict=strict)

    def b_min(self, *a):
        if len(a) == 1:
            a = list(a[0])
        if not has_sym(a):
            return min(a)
        r = a[0]
        for x in a[1:]:
            r = py_min2(r, x)
        return r

    def b_max(self, *a):
        if len(a) == 1:
            a = list(a[0])
        if not has_sym(a):
            return max(a)
        r = a[0]
        for x in a[1:]:
            r = py_max2(r, x)
        return r

    def b_int(self, x=0):
        if isinstance(x, np.generic):
            x = x.item()
        if isinstance(x, SInt):
            return x
        if isinstance(x, Num):
            return self.float_to_int(x)
        if isinstance(x, SBool):
            return ite(x, 1, 0)
        try:
            return int(x)
        except (OverflowError, ValueError) as e:      # int(inf) / int(nan): the interpreted code raises on this path, as python and numba do
            raise PathRaise(type(e), str(e))

    def b_float(self, x=0.0):
        if isinstance(x, Num):
            return x           # nopython mode: float(float32) stays float32 (the f32 mark is kept); np.float64(x) widens
        if isinstance(x, (SInt, SBool)):
            raise Unsupported("float(machine int)")
        return float(x)

    def b_bool(self, x=False):
        if is_sym(x):
            return self.truth(x)
        return bool(x)

    def b_abs(self, x):
        if isinstance(x, Num):
            return ite(x < 0, -x, x)
        return abs(x)

    def b_sqrt(self, x):
        if isinstance(x, Num):
            f = self.stubs.get('sqrt')
            if f is not None:
                return f.fn(x)
            raise Unsupported("sqrt(sym)")
        return math.sqrt(x)

    def b_divmod(self, a, b):
        if is_sym(a) or is_sym(b):
            return (self.binop(ast.FloorDiv, a, b) if not isinstance(a, SInt) else self.sint_floordiv(a, b)), self.binop(ast.Mod, a, b)
        return divmod(a, b)

    def sint_floordiv(self, a, b):
        if isinstance(b, (int, np.integer)) and int(b) > 0 and (int(b) & (int(b) - 1)) == 0:
            return a >> (int(b).bit_length() - 1)        # floored division by a power of two == arithmetic shift
        raise Unsupported('floor division of a machine integer by a non power of two')

    def b_tuple(self, x=()):
        return tuple(x)

    def b_list(self, x=()):
        return list(x)

    def b_sorted(self, x, **k):
        x = list(x)
        if has_sym(x):
            raise Unsupported("sorted(sym)")
        return sorted(x, **k)

    def b_set(self, x=()):
        x = list(x)
        if has_sym(x):
            raise Unsupported("set(sym)")
        return set(int(v) if isinstance(v, np.integer) else v for v in x)

    def b_any(self, x):
        x = list(x)
        return Or(*x) if has_sym(x) else any(x)

    def b_all(self, x):
        x = list(x)
        return And(*x) if has_sym(x) else all(x)

    def b_sum(self, x, start=0):
        r = start
        for v in x:
            r = r + v
        return r

    def float_to_int(self, x):
        """float -> int64 conversion (C truncation).  Only exact-integer valued terms are supported here; the
        general case is provided by harness stubs ('float_to_int')."""
        f = self.stubs.get('float_to_int')
        if f is not None:
            return f.fn(x)
        raise Unsupported("int(sym float)")

    def dtype_of(self, a):
        if a.dtype != object:
            return a.dtype
        e = self.sdtype.get(id(a))
        if e is not None and e[0] is a:
            return e[1]
        return np.dtype(np.float64)

    # ------------------------------------------------------------------ tags (native boundary)
    def lift(self, r):
        """replace registered tag values in natively produced coordinate arrays by their symbols"""
        if not self.tags:
            return r
        if isinstance(r, np.ndarray) and r.dtype != object and r.dtype.kind in self.tag_dtypes and r.size:
            flat = r.ravel()
            hit = False
            for x in flat:
                if x.item() in self.tags:
                    hit = True
                    break
            if not hit:
                return r
            out = np.empty(r.shape, dtype=object)
            of = out.reshape(-1) if out.ndim != 1 else out
            for i, x in enumerate(flat):
                xv = x.item()
                of[i] = self.tags.get(xv, xv)
            self.sdtype[id(out)] = (out, r.dtype)
            self.stats['lifts'] += 1
            return out
        if isinstance(r, tuple) and any(isinstance(x, np.ndarray) for x in r):
            return tuple(self.lift(x) for x in r)
        if isinstance(r, (float, np.floating, np.integer)) and not isinstance(r, bool):
            xv = r.item() if hasattr(r, 'item') else r
            if xv in self.tags:
                return self.tags[xv]
        return r

    def concretize_mask(self, v):
        """object array of (possibly symbolic) booleans -> concrete bool array (forks in fork mode)"""
        out = np.empty(v.shape, dtype=bool)
        for idx in np.ndindex(v.shape):
            x = v[idx]
            if isinstance(x, (bool, np.bool_)):
                out[idx] = bool(x)
            elif isinstance(x, SBool):
                if self.explorer is None:
                    raise NeedConcrete('mask')
                out[idx] = self.explorer.decide(x)
            elif isinstance(x, (Num, SInt)):
                if self.explorer is None:
                    raise NeedConcrete('mask')
                out[idx] = self.explorer.decide(x != 0)
            else:
                out[idx] = bool(x)
        return out

    # ------------------------------------------------------------------ calling
    def call(self, f, args, kw=None, guard=True):
        kw = kw or {}
        if isinstance(f, Stub):
            return f.fn(*args, **kw)
        if isinstance(f, BoundFunc):
            return self.call_func(f.f, [f.obj] + list(args), kw, guard)
        if isinstance(f, Func):
            return self.call_func(f, list(args), kw, guard)
        return self.call_native(f, args, kw)

    LOWERING = ('ListArray.from_arrays', 'LargeListArray.from_arrays', 'array', 'py_buffer', 'Array.from_buffers')

    def lower(self, v):
        """symbolic values handed to data-moving native code (pyarrow constructors) go back to concrete tags: a symbol
        that is a registered tag gets its own tag value, any other term gets a fresh tag"""
        if isinstance(v, np.ndarray) and v.dtype == object and any(is_sym(x) for x in v.ravel()):
            if not hasattr(self, '_untag'):
                self._untag = {}
            for tag, num in self.tags.items():
                self._untag.setdefault(id(num), tag)
            out = np.empty(v.shape, dtype=self.dtype_of(v) if self.dtype_of(v).kind in 'fiu' else np.float64)
            for idx in np.ndindex(v.shape):
                x = v[idx]
                if is_sym(x):
                    tag = self._untag.get(id(x))
                    if tag is None:
                        if self.fresh_tag is None:
                            raise Unsupported("derived symbolic value handed to native code (no tag allocator)")
                        tag = self.fresh_tag(x)
                        self._untag[id(x)] = tag
                    out[idx] = tag
                else:
                    out[idx] = x
            return out
        if isinstance(v, (list, tuple)) and has_sym(v):
            return type(v)(self.lower(x) for x in v)
        return v

    def call_native(self, f, args, kw):
        self.stats['native_calls'] += 1
        if f in (np.float64, np.float32) and len(args) == 1 and not kw and isinstance(args[0], Poison):
            return args[0]            # converting a value read out of bounds does not use it yet
        if has_sym(args) or has_sym(tuple(kw.values())):
            qn = getattr(f, '__qualname__', getattr(f, '__name__', ''))
            if self.tags and qn in self.LOWERING:
                args = [self.lower(a) for a in args]
                kw = {k: self.lower(v) for k, v in kw.items()}
                return self.lift(f(*args, **kw))
            ok = self.native_symbolic_ok.get(getattr(f, '__qualname__', getattr(f, '__name__', repr(f))))
            bound_self = getattr(f, '__self__', None)
            if bound_self is self.np or (bound_self is self) or ok or getattr(f, '_pysym_model', False) or getattr(bound_self, '_pysym_model', False) or f in (tuple, list, enumerate, zip, reversed, len, isinstance, type, id):
                return f(*args, **kw)
            if isinstance(bound_self, (list, dict)) or (isinstance(bound_self, np.ndarray) and bound_self.dtype == object):
                return f(*args, **kw)
            if f in (np.float64, np.float32) and len(args) == 1 and not kw and isinstance(args[0], Num):
                # widening (np.float64) keeps the value; np.float32 of a float32-marked value is the identity
                x = args[0]
                if f is np.float64:
                    return Num(x.v, x.nan, x.inf, False) if x.f32 else x
                if x.f32:
                    return x
                raise Unsupported("np.float32(float64 value): narrowing is not modelled")
            raise Unsupported(f"native call {getattr(f, '__qualname__', f)!r} with symbolic arguments")
        args = [self.typed(a) for a in args]
        kw = {k: self.typed(v) for k, v in kw.items()}
        return self.lift(f(*args, **kw))

    def typed(self, a):
        """object arrays without symbolic content are handed to native code as typed arrays"""
        if isinstance(a, np.ndarray) and a.dtype == object:
            flat = a.ravel()
            if len(flat) and all(isinstance(x, (bool, np.bool_)) for x in flat):
                return a.astype(bool)
            if not len(flat):
                return a.astype(self.dtype_of(a))
            if all(isinstance(x, (int, float, np.integer, np.floating)) and not isinstance(x, bool) for x in flat):
                dt = self.dtype_of(a)
                try:
                    return a.astype(dt if dt.kind in 'fiu' else np.float64)
                except (TypeError, ValueError):
                    return a
            return a
        if isinstance(a, list) and a and any(isinstance(x, np.ndarray) and x.dtype == object for x in a):
            return [self.typed(x) for x in a]
        return a

    def bind(self, f, args, kw):
        a = f.node.args
        params = [x.arg for x in a.posonlyargs + a.args]
        env = {}
        if len(args) > len(params):
            if a.vararg is None:
                raise Unsupported(f"too many arguments for {f.qualname}")
            env[a.vararg.arg] = tuple(args[len(params):])
            args = args[:len(params)]
        elif a.vararg is not None:
            env[a.vararg.arg] = ()
        for p, v in zip(params, args):
            env[p] = v
        defaults = a.defaults
        dstart = len(params) - len(defaults)
        extra = {}
        for k, v in kw.items():
            if k in params or k in [x.arg for x in a.kwonlyargs]:
                if k in env:
                    raise Unsupported(f"duplicate argument {k}")
                env[k] = v
            else:
                extra[k] = v
        if extra:
            if a.kwarg is None:
                raise Unsupported(f"unexpected keyword {list(extra)} for {f.qualname}")
        if a.kwarg is not None:
            env[a.kwarg.arg] = extra
        for i, p in enumerate(params):
            if p not in env:
                if i >= dstart:
                    env[p] = ('__default__', defaults[i - dstart])
                else:
                    raise Unsupported(f"missing argument {p} for {f.qualname}")
        for k, d in zip(a.kwonlyargs, a.kw_defaults):
            if k.arg not in env:
                if d is None:
                    raise Unsupported(f"missing kw-only argument {k.arg}")
                env[k.arg] = ('__default__', d)
        return env

    def call_func(self, f, args, kw=None, guard=True):
        self.stats['calls'] += 1
        kw = kw or {}
        if f.qualname in self.stubs:
            return self.stubs[f.qualname].fn(*args, **kw)
        self.note_encoded(f)
        fr = Frame(guard, f)
        env = self.bind(f, args, kw)
        for k, v in list(env.items()):
            if isinstance(v, tuple) and len(v) == 2 and isinstance(v[0], str) and v[0] == '__default__':
                env[k] = self.expr(v[1], fr, guard)
        fr.env = env
        self.block(f.node.body, fr, guard)
        obs = self.observe.get(f.node.name)
        if obs is not None:
            obs.append(dict(fr.env)) if isinstance(obs, list) else obs.update(fr.env)
        if not fr.rets:
            return None
        val = fr.rets[-1][1]
        try:
            for g, v in reversed(fr.rets[:-1]):
                val = ite(g, v, val)
        except NeedConcrete as ex:
            return Unmergeable(f"return values of {f.qualname} cannot be merged: {ex}")
        return val

    def note_encoded(self, f):
        if f.qualname in self.encoded:
            return
        try:
            seg = ast.get_source_segment(f.module.src, f.node) or ''
        except Exception:
            seg = ''
        self.encoded[f.qualname] = {
            'file': os.path.relpath(f.module.path, self.repo), 'line': f.node.lineno,
            'sha1': hashlib.sha1(seg.encode()).hexdigest()[:12]}

    # ------------------------------------------------------------------ statements
    def eff(self, fr, guard):
        return And(guard, Not(fr.returned), self.local_guard(fr))

    def local_guard(self, fr):
        g = True
        for lp in fr.loops:
            g = And(g, Not(lp['broke']), Not(lp['cont']))
        return g

    def assign_plain(self, t, v, fr):
        if isinstance(t, ast.Name):
            fr.env[t.id] = v
        else:
            vs = list(v)
            if len(vs) != len(t.elts):
                raise Unsupported("unpack length mismatch")
            for te, ve in zip(t.elts, vs):
                self.assign_plain(te, ve, fr)

    def block(self, stmts, fr, guard):
        for s in stmts:
            g = self.eff(fr, guard)
            if g is False:
                return
            self.stmt(s, fr, g)

    def stmt(self, s, fr, g):
        self.stats['stmts'] += 1
        if isinstance(s, ast.Expr):
            if isinstance(s.value, ast.Constant):
                return   # docstring
            self.expr(s.value, fr, g)
            return
        if isinstance(s, ast.Assign):
            v = self.expr(s.value, fr, g)
            for t in s.targets:
                self.assign(t, v, fr, g)
            return
        if isinstance(s, ast.AnnAssign):
            if s.value is not None:
                self.assign(s.target, self.expr(s.value, fr, g), fr, g)
            return
        if isinstance(s, ast.AugAssign):
            cur = self.expr(s.target, fr, g)
            rhs = self.expr(s.value, fr, g)
            if isinstance(cur, list) and isinstance(s.op, ast.Add):
                if g is not True:
                    raise NeedConcrete(g)
                cur.extend(rhs)
                return
            v = self.binop(type(s.op), cur, rhs)
            self.assign(s.target, v, fr, g)
            return
        if isinstance(s, ast.If):
            c = self.truth(self.expr(s.test, fr, g))
            if c is True:
                self.block(s.body, fr, g)
                return
            if c is False:
                self.block(s.orelse, fr, g)
                return
            env0 = dict(fr.env)
            self.block(s.body, fr, And(g, c))
            env_t = fr.env
            fr.env = dict(env0)
            self.block(s.orelse, fr, And(g, Not(c)))
            env_f = fr.env
            merged = {}
            for k in set(env_t) | set(env_f):
                if k in env_t and k in env_f:
                    a, b = env_t[k], env_f[k]
                    merged[k] = a if a is b else ite(c, a, b)
                else:
                    merged[k] = env_t.get(k, env_f.get(k))
            fr.env = merged
            return
        if isinstance(s, ast.For):
            it = self.expr(s.iter, fr, g)
            if isinstance(it, np.ndarray) and it.dtype != object:
                it = [x.item() for x in it] if it.ndim == 1 else list(it)
            lp = {'broke': False, 'cont': False}
            fr.loops.append(lp)
            names = [n.id for n in ast.walk(s.target) if isinstance(n, ast.Name)]
            before = {n: fr.env.get(n) for n in names}
            entered = []
            for item in it:
                lp['cont'] = False
                gi = self.eff(fr, g)
                if gi is False:
                    break
                entered.append((And(Not(lp['broke'])), item))
                self.assign_plain(s.target, item, fr)
                self.block(s.body, fr, g)
            fr.loops.pop()
            broke = lp['broke']
            # loop variables keep the value of the last iteration that was entered
            if entered and any(e[0] is not True for e in entered):
                sub = Frame(True)
                vals = dict(before)
                for ent, item in entered:
                    self.assign_plain(s.target, item, sub)
                    for n in names:
                        vals[n] = sub.env[n] if vals[n] is None else ite(ent, sub.env[n], vals[n])
                for n in names:
                    fr.env[n] = vals[n]
            if s.orelse:
                self.block(s.orelse, fr, And(g, Not(broke)))
            return
        if isinstance(s, ast.While):
            lp = {'broke': False, 'cont': False}
            fr.loops.append(lp)
            n = 0
            while True:
                lp['cont'] = False
                gi = self.eff(fr, g)
                if gi is False:
                    break
                c = self.truth(self.expr(s.test, fr, gi))
                if not isinstance(c, bool):
                    # merge mode, symbolic loop condition: unroll under an accumulating guard; the loop is left once the
                    # condition is unsatisfiable together with the guard (decided by the solver: the unwinding assertion)
                    if s.orelse:
                        raise Unsupported("while/else with a symbolic condition")
                    g = And(g, c)
                    chk = z3.Solver()
                    chk.set('timeout', 20000)
                    chk.add(tz(self.eff(fr, g)))
                    r = str(chk.check())
                    self.stats['while_unwinding_queries'] = self.stats.get('while_unwinding_queries', 0) + 1
                    if r == 'unsat':
                        break
                    if r != 'sat':
                        raise Unsupported("symbolic while: unwinding query undecided")
                    if n >= self.max_sym_while:
                        raise Unsupported(f"symbolic while: still satisfiable after {n} unrollings")
                elif not c:
                    break
                self.block(s.body, fr, g)
                n += 1
                if n > self.max_while:
                    raise Unsupported("while bound")
            fr.loops.pop()
            return
        if isinstance(s, ast.Break):
            lp = fr.loops[-1]
            lp['broke'] = Or(lp['broke'], g)
            return
        if isinstance(s, ast.Continue):
            lp = fr.loops[-1]
            lp['cont'] = Or(lp['cont'], g)
            return
        if isinstance(s, ast.Return):
            v = self.expr(s.value, fr, g) if s.value is not None else None
            fr.rets.append((g, v))
            fr.returned = Or(fr.returned, g)
            return
        if isinstance(s, ast.Pass):
            return
        if isinstance(s, ast.Assert):
            c = self.truth(self.expr(s.test, fr, g))
            if c is True:
                return
            if c is False and g is True:
                raise PathRaise(AssertionError, ast.unparse(s))
            raise Unsupported("assert on symbolic condition")
        if isinstance(s, ast.Raise):
            if g is True:
                exc = None
                try:
                    exc = self.expr(s.exc.func if isinstance(s.exc, ast.Call) else s.exc, fr, g) if s.exc is not None else None
                except Exception:
                    exc = None
                raise PathRaise(exc, ast.unparse(s)[:120])
            raise NeedConcrete(g)
        if isinstance(s, ast.FunctionDef):
            fr.env[s.name] = Func(s, fr.func.module if fr.func else None, s.name, closure=fr.env)
            return
        if isinstance(s, (ast.Import, ast.ImportFrom)):
            self.do_import(s, fr)
            return
        if isinstance(s, ast.Try):
            # only try/except around purely concrete native code is supported
            try:
                self.block(s.body, fr, g)
            except (NeedConcrete, Unsupported, PathRaise, Infeasible, OutOfBounds):
                raise
            except Exception as e:   # native exception: find a handler
                for h in s.handlers:
                    ht = self.expr(h.type, fr, g) if h.type is not None else Exception
                    if isinstance(e, ht):
                        if h.name:
                            fr.env[h.name] = e
                        self.block(h.body, fr, g)
                        break
                else:
                    raise
            else:
                self.block(s.orelse, fr, g)
            self.block(s.finalbody, fr, g)
            return
        if isinstance(s, ast.Delete):
            return
        raise Unsupported("statement " + ast.dump(s)[:80])

    def do_import(self, s, fr):
        import importlib
        if isinstance(s, ast.Import):
            for a in s.names:
                mod = importlib.import_module(a.name)
                fr.env[a.asname or a.name.split('.')[0]] = self.wrap_global(mod if a.asname else importlib.import_module(a.name.split('.')[0]))
            return
        base = fr.func.module.pymod.__package__ if (fr.func and fr.func.module.pymod) else None
        modname = ('.' * s.level) + (s.module or '')
        mod = importlib.import_module(modname, base) if s.level else importlib.import_module(s.module)
        for a in s.names:
            try:
                obj = getattr(mod, a.name)
            except AttributeError:
                obj = importlib.import_module(modname + '.' + a.name, base) if s.level else importlib.import_module(s.module + '.' + a.name)
            fr.env[a.asname or a.name] = self.wrap_global(obj, a.name)

    def truth(self, v):
        if isinstance(v, SBool):
            if self.explorer is not None:
                return self.explorer.decide(v)
            return v
        if isinstance(v, (Num, SInt)):
            return self.truth(v != 0)
        if isinstance(v, (list, tuple, dict, set, str, bytes)):
            return len(v) > 0
        if isinstance(v, np.ndarray):
            if v.size == 1:
                return self.truth(v.ravel()[0])
            raise Unsupported("truth of array")
        if v is None:
            return False
        return bool(v)

    def assign(self, t, v, fr, g):
        if isinstance(t, ast.Name):
            lg = self.local_guard(fr)
            if lg is True or t.id not in fr.env:
                fr.env[t.id] = v
            else:
                fr.env[t.id] = ite(lg, v, fr.env[t.id])
            return
        if isinstance(t, (ast.Tuple, ast.List)):
            vs = list(v)
            if len(vs) != len(t.elts):
                if g is True:
                    raise PathRaise(ValueError, f"not enough/too many values to unpack (expected {len(t.elts)}, got {len(vs)})")
                raise Unsupported("unpack length mismatch under a symbolic guard")
            for te, ve in zip(t.elts, vs):
                self.assign(te, ve, fr, g)
            return
        if isinstance(t, ast.Subscript):
            base = self.expr(t.value, fr, g)
            if self.explorer is None and isinstance(base, np.ndarray) and base.dtype == object and not isinstance(t.slice, (ast.Slice, ast.Tuple)):
                raw = self.expr(t.slice, fr, g)
                if isinstance(raw, np.ndarray) and raw.dtype == object and raw.shape == base.shape and any(isinstance(x, SBool) for x in raw.ravel()):
                    # a[mask] = scalar with a symbolic mask (merge mode): element-wise conditional store
                    if isinstance(v, (np.ndarray, list, tuple)):
                        raise NeedConcrete('masked store of a sequence under a symbolic mask')
                    for i in np.ndindex(base.shape):
                        self.setitem(base, i, v, And(g, raw[i]))
                    return
                self.setitem(base, self.as_index(raw), v, g)
                return
            idx = self.index(t.slice, fr, g)
            self.setitem(base, idx, v, g)
            return
        if isinstance(t, ast.Attribute):
            base = self.expr(t.value, fr, g)
            if g is not True:
                raise NeedConcrete(g)
            if isinstance(base, SelfObj):
                base.__dict__[t.attr] = v
            else:
                setattr(base, t.attr, v)
            return
        raise Unsupported("assign target " + ast.dump(t)[:60])

    def store_conv(self, base, v):
        """conversion applied by a store into an array with a declared dtype"""
        e = self.sdtype.get(id(base))
        dt = e[1] if (e is not None and e[0] is base) else None
        if dt is None:
            return v
        if dt.kind in 'iu' and dt.itemsize < 8 and isinstance(v, SInt):
            bits = 8 * dt.itemsize
            low = z3.Extract(bits - 1, 0, v.t)
            return SInt(z3.simplify(z3.ZeroExt(SInt.W - bits, low) if dt.kind == 'u' else z3.SignExt(SInt.W - bits, low)))
        if dt.kind in 'iu' and dt.itemsize < 8 and isinstance(v, (int, np.integer)) and not isinstance(v, bool):
            return int(np.array(int(v) & ((1 << 64) - 1), dtype=np.uint64).astype(dt))
        if dt.kind in 'iu' and isinstance(v, Num):
            if self.tags and any(v is t for t in self.tags.values()):
                return v            # a coordinate symbol of an integer-typed geometry array: already an integer
            r = self.float_to_int(v)
            if dt.kind == 'u' and isinstance(r, Num):
                # conversion to an unsigned type wraps negative values (x86 semantics of the C cast, |v| < 2^63)
                r = ite(r < 0, r + (1 << (8 * dt.itemsize)), r)
            return r
        if dt.kind in 'iu' and isinstance(v, float):
            return int(v)
        if dt.kind == 'f' and isinstance(v, (SBool, bool, np.bool_)):
            return ite(v, 1.0, 0.0) if isinstance(v, SBool) else float(v)
        if dt.kind == 'b' and isinstance(v, (Num, SInt)):
            return v != 0
        return v

    def setitem(self, base, idx, v, g):
        if isinstance(base, list):
            if isinstance(idx, slice):
                if g is not True:
                    raise NeedConcrete(g)
                base[idx] = v
                return
            self.check_index(base, idx)
            base[idx] = v if g is True else ite(g, v, base[idx])
            return
        if isinstance(base, dict):
            if g is not True:
                raise NeedConcrete(g)
            base[idx] = v
            return
        if isinstance(base, (tuple, str, bytes)):
            if g is True:
                raise PathRaise(TypeError, f"'{type(base).__name__}' object does not support item assignment")
            raise NeedConcrete(g)
        if not isinstance(base, np.ndarray):
            if g is not True or has_sym(v):
                raise Unsupported("setitem on " + type(base).__name__)
            base[idx] = v
            return
        self.check_index(base, idx)
        symbolic = (g is not True) or has_sym(v)
        if base.dtype != object:
            if symbolic:
                raise NeedConcrete(('write sym into typed array', str(base.dtype)))
            if not base.flags.writeable:
                raise PathRaise(ValueError, "assignment destination is read-only")
            base[idx] = v
            return
        cur = base[idx]
        if isinstance(cur, np.ndarray):
            if isinstance(v, np.ndarray):
                vv = np.broadcast_to(v, cur.shape)
            elif isinstance(v, (tuple, list)):
                vv = np.empty(len(v), dtype=object)
                for i, e in enumerate(v):
                    vv[i] = e
                vv = np.broadcast_to(vv, cur.shape)
            else:
                vv = _arr_obj(cur.shape, v)
            vv = np.array(vv, dtype=object)    # copy first: numpy/numba overlap-safe semantics
            new = np.empty(cur.shape, dtype=object)
            for i in np.ndindex(cur.shape):
                x = vv[i]
                if isinstance(x, np.generic):
                    x = x.item()
                x = self.store_conv(base, x)
                new[i] = x if g is True else ite(g, x, cur[i])
            base[idx] = new
        else:
            if isinstance(v, np.ndarray) and v.size == 1:
                v = v.ravel()[0]
            if isinstance(v, np.generic):
                v = v.item()
            v = self.store_conv(base, v)
            base[idx] = v if g is True else ite(g, v, cur)

    def check_index(self, base, idx):
        try:
            base[idx]
        except IndexError as e:
            raise OutOfBounds(f"index {idx!r} out of bounds for length/shape {getattr(base, 'shape', None) or len(base)}") from e

    def index(self, sl, fr, g):
        if isinstance(sl, ast.Slice):
            parts = [self.expr(x, fr, g) if x is not None else None for x in (sl.lower, sl.upper, sl.step)]
            if any(isinstance(v, (Num, SBool, SInt, float)) for v in parts):
                return slice(*parts)         # a coordinate interval (e.g. obj.cx[x0:x1, ...]), not an array slice
            return slice(*(self.toint(v) for v in parts))
        if isinstance(sl, ast.Tuple):
            return tuple(self.index(e, fr, g) for e in sl.elts)
        v = self.expr(sl, fr, g)
        return self.as_index(v)

    def as_index(self, v):
        if isinstance(v, np.ndarray) and v.dtype == object:
            flat = v.ravel()
            if any(isinstance(x, (SBool, bool, np.bool_)) for x in flat):
                return self.concretize_mask(v)
            if all(isinstance(x, (int, np.integer)) for x in flat):
                return v.astype(np.int64)
            raise NeedConcrete('symbolic index array')
        if isinstance(v, (np.ndarray, tuple, list, slice, str)) or v is None or v is Ellipsis:
            return v
        if isinstance(v, (Num, SBool, SInt)):
            raise NeedConcrete(v)
        if isinstance(v, (int, np.integer)):
            return int(v)
        if isinstance(v, float) and v == int(v):
            return v
        return v

    def toint(self, v):
        if isinstance(v, (Num, SBool, SInt)):
            raise NeedConcrete(v)
        if v is None:
            return None
        return int(v)

    # ------------------------------------------------------------------ expressions
    def binop(self, op, a, b):
        if isinstance(a, np.ndarray) or isinstance(b, np.ndarray):
            if ((isinstance(a, np.ndarray) and a.dtype == object) or (isinstance(b, np.ndarray) and b.dtype == object)
                    or is_sym(a) or is_sym(b)):
                return vec2(lambda x, y: self.binop(op, x, y), a, b)
            return BINOPS[op](a, b)
        if isinstance(a, np.generic):
            a = a.item()
        if isinstance(b, np.generic):
            b = b.item()
        if isinstance(a, (SBool, bool)) and isinstance(b, (SBool, bool)) and (isinstance(a, SBool) or isinstance(b, SBool)):
            if op is ast.BitAnd:
                return And(a, b)
            if op is ast.BitOr:
                return Or(a, b)
            if op is ast.BitXor:
                return Xor(a, b)
            raise Unsupported("arithmetic on symbolic bool")
        if isinstance(a, SBool) or isinstance(b, SBool):
            a = ite(a, 1, 0) if isinstance(a, SBool) else a
            b = ite(b, 1, 0) if isinstance(b, SBool) else b
        if isinstance(a, (list, tuple)) and op is ast.Add:
            return a + b
        if (isinstance(a, Num) or isinstance(b, Num)) and op in (ast.FloorDiv, ast.Mod, ast.LShift, ast.RShift, ast.BitAnd, ast.BitOr, ast.BitXor):
            raise Unsupported("integer operator on symbolic float")
        if isinstance(a, Num) and isinstance(b, SInt) or isinstance(a, SInt) and isinstance(b, Num):
            raise Unsupported("mixed float / machine int arithmetic")
        if isinstance(a, SInt) and isinstance(b, float) or isinstance(a, float) and isinstance(b, SInt):
            # numba computes this in float64. A constant machine integer is converted exactly as numba does (int64 -> float64,
            # round to nearest); float64 rounding of *symbolic* machine integers is not modelled
            sa, sb = (a, b) if isinstance(a, SInt) else (b, a)
            cv = z3.simplify(sa.t)
            if z3.is_bv_value(cv):
                fv = float(cv.as_signed_long())
                return BINOPS[op](fv, b) if sa is a else BINOPS[op](a, fv)
            raise Unsupported("machine integer combined with a float64 value (float64 rounding of integers beyond 2^53 is not modelled)")
        if op is ast.Div and isinstance(b, (int, float)) and not isinstance(a, (Num, SInt)) and b == 0:
            # numba float semantics: x/0 -> inf/nan (python would raise)
            a = float(a)
            return math.nan if (a == 0 or a != a) else math.copysign(math.inf, a)
        return BINOPS[op](a, b)

    def cmpop(self, op, a, b):
        if op in (ast.Is, ast.IsNot):
            r = a is b
            return r if op is ast.Is else not r
        if op in (ast.In, ast.NotIn):
            if has_sym(a) or has_sym(b):
                raise Unsupported("`in` on symbolic values")
            r = a in b
            return r if op is ast.In else not r
        if isinstance(a, np.ndarray) or isinstance(b, np.ndarray):
            if ((isinstance(a, np.ndarray) and a.dtype == object) or (isinstance(b, np.ndarray) and b.dtype == object)
                    or is_sym(a) or is_sym(b)):
                return vec2(lambda x, y: self.cmpop(op, x, y), a, b)
            return CMPOPS[op](a, b)
        if isinstance(a, np.generic):
            a = a.item()
        if isinstance(b, np.generic):
            b = b.item()
        if isinstance(b, Num) and not isinstance(a, Num) and isinstance(a, (int, float)):
            a = Num.lift(a)
        if isinstance(b, SInt) and isinstance(a, (int, bool)):
            a = SInt(SInt.tv(a))
        if isinstance(a, SBool) or isinstance(b, SBool):
            if isinstance(a, (SBool, bool)) and isinstance(b, (SBool, bool)):
                if op is ast.Eq:
                    return Not(Xor(a, b))
                if op is ast.NotEq:
                    return Xor(a, b)
            a = ite(a, 1, 0) if isinstance(a, SBool) else a
            b = ite(b, 1, 0) if isinstance(b, SBool) else b
            if not isinstance(a, Num) and isinstance(b, Num):
                a = Num.lift(a)
        r = CMPOPS[op](a, b)
        if isinstance(r, np.bool_):
            r = bool(r)
        return r

    def getattr_(self, base, attr, fr, g):
        if isinstance(base, SelfObj):
            if attr in base.__dict__:
                return base.__dict__[attr]
            qn = f"{base._cls}.{attr}"
            if qn in base._module.funcs:
                return BoundFunc(Func(base._module.funcs[qn], base._module, qn), base)
            raise Unsupported(f"attribute {attr} of synthetic {base._cls}")
        if isinstance(base, np.ndarray):
            if attr == 'T' and base.dtype == object:
                return base.T
            if attr in ('shape', 'size', 'ndim', 'dtype', 'T', 'flags', 'strides', 'itemsize', 'nbytes'):
                if attr == 'dtype' and base.dtype == object:
                    return self.dtype_of(base)
                return getattr(base, attr)
            return _NdMethod(base, attr)
        if attr == '__class__' and not isinstance(base, (SelfObj, np.ndarray, Num, SInt, SBool)):
            return type(base)
        if self.is_repo_obj(base):
            try:
                raw = inspect.getattr_static(type(base), attr)
            except AttributeError:
                raw = None
            if raw is not None and attr not in getattr(base, '__dict__', {}):
                if isinstance(raw, property):
                    f = self.func_of(raw.fget)
                    if f is not None:
                        return self.call_func(f, [base], {}, g)
                    return self.lift(getattr(base, attr))
                if isinstance(raw, staticmethod):
                    f = self.func_of(raw.__func__)
                    if f is not None:
                        return f
                if isinstance(raw, classmethod):
                    f = self.func_of(raw.__func__)
                    if f is not None:
                        return BoundFunc(f, type(base))
                if isinstance(raw, types.FunctionType) or hasattr(raw, 'py_func'):
                    f = self.func_of(raw)
                    if f is not None:
                        return BoundFunc(f, base)
            return self.lift(getattr(base, attr))
        if isinstance(base, type) and isinstance(getattr(base, '__module__', None), str) and base.__module__.startswith(REPO_PKG):
            try:
                raw = inspect.getattr_static(base, attr)
            except AttributeError:
                raw = None
            if isinstance(raw, staticmethod):
                f = self.func_of(raw.__func__)
                if f is not None:
                    return f
            if isinstance(raw, classmethod):
                f = self.func_of(raw.__func__)
                if f is not None:
                    return BoundFunc(f, base)
            if isinstance(raw, types.FunctionType) or hasattr(raw, 'py_func'):
                f = self.func_of(raw)
                if f is not None:
                    return f
            return getattr(base, attr)
        if isinstance(base, (Num, SInt, SBool)):
            raise Unsupported(f"attribute {attr} of symbolic scalar")
        r = getattr(base, attr)
        if isinstance(base, types.ModuleType):
            return self.wrap_global(r, attr)
        return self.lift(r) if isinstance(r, np.ndarray) else r

    def ndmethod(self, base, name, args, kw, g):
        it = self
        if name == 'fill':
            if g is True and base.dtype != object and not has_sym(args[0]):
                base.fill(args[0])
            else:
                for i in np.ndindex(base.shape):
                    it.setitem(base, i, args[0], g)
            return None
        if name == 'any':
            return Or(*list(base.ravel())) if base.dtype == object else bool(base.any())
        if name == 'all':
            return And(*list(base.ravel())) if base.dtype == object else bool(base.all())
        if name == 'copy':
            out = base.copy()
            e = it.sdtype.get(id(base))
            if e is not None and e[0] is base:
                it.sdtype[id(out)] = (out, e[1])
            return out
        if name in ('min', 'max'):
            if kw or args:
                ax = args[0] if args else kw.get('axis')
                if set(kw) - {'axis'} or len(args) > 1:
                    raise Unsupported("min/max with keyword arguments other than axis")
                return it.np._red(base, name == 'min', False, ax)
            if base.dtype != object:
                return getattr(base, name)().item()
            return np_minmax(list(base.ravel()), name == 'min')
        if name == 'astype':
            dt = np.dtype(args[0] if args else kw['dtype'])
            if base.dtype != object:
                return base.astype(dt)
            out = np.empty(base.shape, dtype=object)
            it.sdtype[id(out)] = (out, dt)
            for i in np.ndindex(base.shape):
                out[i] = it.store_conv(out, base[i])
            if not has_sym(out):
                try:
                    return np.array(out.tolist(), dtype=dt).reshape(base.shape)
                except Exception:
                    return out
            return out
        if name == 'view':
            if base.dtype == object:
                raise Unsupported("view of symbolic array")
            return it.lift(base.view(*args, **kw))
        if name in ('ravel', 'reshape', 'tolist', 'flatten', 'squeeze', 'transpose', 'take', 'item'):
            r = getattr(base, name)(*args, **kw)
            return it.lift(r) if isinstance(r, np.ndarray) else r
        if name == 'tobytes' and base.dtype == object:
            return SymBytes(it, list(base.ravel()))
        if name == 'sum':
            if base.dtype != object:
                return base.sum(*args, **kw)
            r = 0
            for x in base.ravel():
                r = it.binop(ast.Add, r, ite(x, 1, 0) if isinstance(x, (SBool, bool)) else x)
            return r
        if base.dtype == object and has_sym(base):
            raise Unsupported(f"ndarray.{name} on symbolic array")
        r = getattr(base, name)(*args, **kw)
        return it.lift(r) if isinstance(r, np.ndarray) else r

    def expr(self, e, fr, g):
        if isinstance(e, ast.Constant):
            return e.value
        if isinstance(e, ast.Name):
            if e.id in fr.env:
                return fr.env[e.id]
            return self.lookup_name(e.id, fr)
        if isinstance(e, ast.Tuple):
            return tuple(self.elts(e.elts, fr, g))
        if isinstance(e, ast.List):
            return list(self.elts(e.elts, fr, g))
        if isinstance(e, ast.Set):
            return set(self.elts(e.elts, fr, g))
        if isinstance(e, ast.Dict):
            return {self.expr(k, fr, g): self.expr(v, fr, g) for k, v in zip(e.keys, e.values)}
        if isinstance(e, ast.BinOp):
            return self.binop(type(e.op), self.expr(e.left, fr, g), self.expr(e.right, fr, g))
        if isinstance(e, ast.UnaryOp):
            v = self.expr(e.operand, fr, g)
            if isinstance(e.op, ast.Not):
                return Not(self.truth(v))
            if isinstance(e.op, ast.USub):
                if isinstance(v, np.ndarray) and v.dtype == object:
                    return vec1(operator.neg, v)
                return -v
            if isinstance(e.op, ast.UAdd):
                return v
            if isinstance(e.op, ast.Invert):
                if isinstance(v, np.ndarray) and v.dtype == object:
                    return vec1(lambda x: Not(x) if isinstance(x, (SBool, bool, np.bool_)) else ~x, v)
                if isinstance(v, SBool):
                    return Not(v)
                return ~v
            raise Unsupported("unary")
        if isinstance(e, ast.BoolOp):
            is_and = isinstance(e.op, ast.And)
            vals = []
            cur_g = g
            last = None
            for sub in e.values:
                if cur_g is False:
                    break
                raw = self.expr(sub, fr, cur_g)
                last = raw
                v = self.truth(raw)
                vals.append(v)
                if is_and:
                    if v is False:
                        break
                    cur_g = And(cur_g, v)
                else:
                    if v is True:
                        break
                    cur_g = And(cur_g, Not(v))
            if all(isinstance(v, bool) for v in vals):
                # python semantics: value of the deciding operand
                if not is_sym(last) and not isinstance(last, (bool, np.bool_)):
                    return last
            return And(*vals) if is_and else Or(*vals)
        if isinstance(e, ast.Compare):
            left = self.expr(e.left, fr, g)
            res = []
            for op, rhs in zip(e.ops, e.comparators):
                right = self.expr(rhs, fr, g)
                res.append(self.cmpop(type(op), left, right))
                left = right
            if len(res) == 1:
                return res[0]
            if any(isinstance(r, np.ndarray) for r in res):
                raise Unsupported("chained comparison of arrays")
            return And(*res)
        if isinstance(e, ast.IfExp):
            c = self.truth(self.expr(e.test, fr, g))
            if c is True:
                return self.expr(e.body, fr, g)
            if c is False:
                return self.expr(e.orelse, fr, g)
            return ite(c, self.expr(e.body, fr, And(g, c)), self.expr(e.orelse, fr, And(g, Not(c))))
        if isinstance(e, ast.Subscript):
            base = self.expr(e.value, fr, g)
            idx = self.index(e.slice, fr, g)
            return self.getitem(base, idx)
        if isinstance(e, ast.Attribute):
            base = self.expr(e.value, fr, g)
            r = self.getattr_(base, e.attr, fr, g)
            if isinstance(r, _NdMethod):
                return getattr(r.base, r.attr)
            return r
        if isinstance(e, ast.Call):
            return self.call_expr(e, fr, g)
        if isinstance(e, (ast.ListComp, ast.GeneratorExp, ast.SetComp)):
            out = []
            self.comp(e.generators, 0, e.elt, fr, g, out)
            return out if not isinstance(e, ast.SetComp) else set(out)
        if isinstance(e, ast.JoinedStr):
            return "<fstring>"
        if isinstance(e, ast.Starred):
            raise Unsupported("starred outside call")
        if isinstance(e, ast.Lambda):
            return Func(ast.FunctionDef(name='<lambda>', args=e.args, body=[ast.Return(value=e.body)], decorator_list=[], lineno=e.lineno),
                        fr.func.module if fr.func else None, '<lambda>', closure=fr.env)
        raise Unsupported("expression " + ast.dump(e)[:80])

    def elts(self, elts, fr, g):
        out = []
        for x in elts:
            if isinstance(x, ast.Starred):
                out.extend(list(self.expr(x.value, fr, g)))
            else:
                out.append(self.expr(x, fr, g))
        return out

    def comp(self, gens, k, elt, fr, g, out):
        if k == len(gens):
            out.append(self.expr(elt, fr, g))
            return
        gen = gens[k]
        it = self.expr(gen.iter, fr, g)
        if isinstance(it, np.ndarray) and it.dtype != object and it.ndim == 1:
            it = [x.item() for x in it]
        saved = dict(fr.env)
        for item in it:
            self.assign_plain(gen.target, item, fr)
            ok = True
            for cond in gen.ifs:
                c = self.truth(self.expr(cond, fr, g))
                if not isinstance(c, bool):
                    raise NeedConcrete(c)
                if not c:
                    ok = False
                    break
            if ok:
                self.comp(gens, k + 1, elt, fr, g, out)
        for n in [n.id for n in ast.walk(gen.target) if isinstance(n, ast.Name)]:
            if n in saved:
                fr.env[n] = saved[n]
            else:
                fr.env.pop(n, None)

    def getitem(self, base, idx):
        if isinstance(base, (np.ndarray, list, tuple)):
            try:
                r = base[idx]
            except IndexError as ex:
                if isinstance(base, np.ndarray) and isinstance(idx, (int, np.integer)):
                    return Poison(f"read index {idx!r} out of bounds for shape {base.shape}")
                raise OutOfBounds(f"read index {idx!r} out of bounds for {getattr(base, 'shape', None) or len(base)}") from ex
            if isinstance(base, np.ndarray) and isinstance(idx, (int, np.integer)) and base.ndim == 1 and idx < 0 and False:
                pass
            if isinstance(r, np.generic):
                r = r.item()
            if isinstance(base, np.ndarray) and base.dtype == object and isinstance(r, np.ndarray):
                e = self.sdtype.get(id(base))
                if e is not None and e[0] is base:
                    self.sdtype[id(r)] = (r, e[1])
            if isinstance(r, (float, int)) and not isinstance(r, bool) and self.tags and r in self.tags and isinstance(base, np.ndarray):
                return self.tags[r]
            return r
        if has_sym(idx):
            raise NeedConcrete(idx)
        r = base[idx]
        return self.lift(r) if isinstance(r, np.ndarray) else r

    def call_expr(self, e, fr, g):
        args = []
        for a in e.args:
            if isinstance(a, ast.Starred):
                args.extend(list(self.expr(a.value, fr, g)))
            else:
                args.append(self.expr(a, fr, g))
        kw = {}
        for k in e.keywords:
            if k.arg is None:
                kw.update(self.expr(k.value, fr, g))
            else:
                kw[k.arg] = self.expr(k.value, fr, g)
        if isinstance(e.func, ast.Attribute):
            base = self.expr(e.func.value, fr, g)
            name = e.func.attr
            if isinstance(base, np.ndarray):
                return self.ndmethod(base, name, args, kw, g)
            if isinstance(base, list) and g is not True and name in ('append', 'pop', 'extend', 'insert', 'remove', 'clear', 'sort', 'reverse'):
                raise NeedConcrete(g)
            if base is None and isinstance(e.func.value, ast.Call) and isinstance(e.func.value.func, ast.Name) and e.func.value.func.id == 'super':
                return self.super_call(fr, name, args, kw, g)
            f = self.getattr_(base, name, fr, g)
            return self.call(f, args, kw, g)
        if isinstance(e.func, ast.Name) and e.func.id == 'super' and 'super' not in fr.env:
            return None
        f = self.expr(e.func, fr, g)
        return self.call(f, args, kw, g)

    def super_call(self, fr, name, args, kw, g):
        """super().method(...) inside an interpreted method of a real repo object"""
        f = fr.func
        clsname = f.qualname.rsplit('.', 1)[0]
        selfname = f.node.args.args[0].arg
        obj = fr.env[selfname]
        cls = getattr(f.module.pymod, clsname)
        owner = obj if isinstance(obj, type) else type(obj)
        mro = owner.__mro__
        for c in mro[mro.index(cls) + 1:]:
            if name in c.__dict__:
                raw = c.__dict__[name]
                if isinstance(raw, (staticmethod, classmethod)):
                    raw = raw.__func__
                ff = self.func_of(raw) if (isinstance(raw, types.FunctionType) or hasattr(raw, 'py_func')) else None
                if ff is not None:
                    return self.call_func(ff, [obj] + list(args), kw, g)
                return self.call_native(getattr(super(cls, obj), name), args, kw)
        raise Unsupported(f"super().{name} not found")
