"""C05 (partial) - the candidate loop of _sjoin_pandas_pandas builds exactly the pair table {(l, r) : J[l, r]}.

The statements of _sjoin_pandas_pandas from `sindex = ...` up to the construction of the `_key_left/_key_right`
DataFrame are located in the AST and executed (fork mode) in a prepared environment:
  * left_df.geometry.sindex.intersects(b) follows its C03 contract (exactly the left rows whose bounds overlap b, in
    an arbitrary order),
  * left_geom.intersects(shape, inds) returns uninterpreted Booleans J[l, r] constrained by J => bounds overlap,
  * right bounds and left bounds are symbolic with a NaN flag per row.
The pandas merge chains that follow are outside this claim.
"""
import ast
import time

import numpy as np
import z3

from pysym import values
from pysym.core import Explorer, Frame, Func, Infeasible, Interp
from pysym.values import Num, PathRaise, tz, wrapb

from .framework import model_ints

SJ = 'spatialpandas.tools.sjoin'


def locate(it):
    """-> (Func of _sjoin_pandas_pandas, list of statements of the candidate loop)"""
    f = it.func(SJ, '_sjoin_pandas_pandas')
    body = f.node.body
    start = end = None
    for i, st in enumerate(body):
        if isinstance(st, ast.Assign) and any(isinstance(t, ast.Name) and t.id == 'sindex' for t in st.targets) and start is None:
            start = i
        if isinstance(st, ast.Assign) and any(isinstance(t, ast.Name) and t.id == 'result' for t in st.targets) and isinstance(st.value, ast.Call) \
                and 'DataFrame' in ast.unparse(st.value.func):
            end = i
            break
    if start is None or end is None:
        from pysym.values import Unsupported
        raise Unsupported("candidate loop of _sjoin_pandas_pandas not found (sindex = ... / result = pd.DataFrame(...))")
    return f, body[start:end + 1]


class Obj:
    _pysym_model = True

    def __init__(self, **kw):
        self.__dict__.update(kw)


class FakeSindex:
    _pysym_model = True

    def __init__(self, it, lbounds, order):
        self.it, self.lb, self.order = it, lbounds, order
        self.ncalls = 0

    def intersects(self, b):
        """C03 contract: exactly the rows whose (non-NaN) bounds overlap b, in the given arbitrary order.  A query with NaN
        entries is outside that contract (C03 assumes lo <= hi): any subset of the rows may come back"""
        b = [Num.lift(x) for x in b]
        qnan = values.Or(*[wrapb(x.nan) for x in b])
        self.ncalls += 1
        out = []
        for i in self.order:
            lo0, lo1, hi0, hi1 = self.lb[i]
            c = values.And(hi0 >= b[0], lo0 <= b[2], hi1 >= b[1], lo1 <= b[3])
            if qnan is not False:
                c = values.Or(values.And(values.Not(qnan), c), values.And(qnan, wrapb(z3.Bool(f'U{self.ncalls}_{i}'))))
            if self.it.truth(c) is True:
                out.append(i)
        return np.array(out, dtype=np.uint32)


class FakeLeftGeom:
    _pysym_model = True

    def __init__(self, J, calls, lb=None, lnan=None):
        self.J, self.calls, self.lb, self.lnan = J, calls, lb or [], lnan or []

    @property
    def total_bounds(self):
        """C13 contract: NaN-skipping extent of the left rows, NaN when no row has defined bounds"""
        out = []
        for j in range(4):
            val, vnan = z3.RealVal(0), z3.BoolVal(True)
            for row, rn in zip(self.lb, self.lnan):
                better = row[j] < val if j < 2 else row[j] > val
                val = z3.If(rn, val, z3.If(z3.Or(vnan, better), row[j], val))
                vnan = z3.And(vnan, rn)
            out.append(Num(val, z3.simplify(vnan)))
        return tuple(out)

    def intersects(self, shape, inds=None):
        if shape is None:          # what PointArray.intersects does with an unsupported operand (read from the real code by the replay)
            raise PathRaise(ValueError, 'Unsupported intersection type NoneType')
        r = shape[1]
        self.calls.append((r, [int(x) for x in inds]))
        out = np.empty(len(inds), dtype=object)
        for k, l in enumerate(inds):
            out[k] = values.wrapb(self.J[int(l)][r])
        return out


class FakeRightGeom:
    _pysym_model = True

    def __init__(self, it=None, rmiss=None):
        self.it, self.rmiss = it, rmiss

    def __getitem__(self, i):
        if self.rmiss is not None and self.it.truth(wrapb(self.rmiss[int(i)])) is True:
            return None                      # a missing element is handed out as None
        return ('shape', int(i))


class FakePd:
    _pysym_model = True

    def __init__(self):
        self.frames = []

    def DataFrame(self, d):
        self.frames.append(d)
        return ('frame', len(self.frames) - 1)


def explore(nl, nr, order=None, timeout=600, max_paths=50000):
    values.set_mul_mode('exact')
    t0 = time.time()
    it = Interp()
    f, stmts = locate(it)
    order = list(order) if order is not None else list(range(nl))
    lb = [[z3.Real(f'l{i}_{j}') for j in range(4)] for i in range(nl)]
    rb = [[z3.Real(f'r{i}_{j}') for j in range(4)] for i in range(nr)]
    lnan = [z3.Bool(f'lnan{i}') for i in range(nl)]
    rnan = [z3.Bool(f'rnan{i}') for i in range(nr)]
    rmiss = [z3.Bool(f'rmiss{i}') for i in range(nr)]        # missing (None) right geometry; rnan without rmiss: an empty one
    J = [[z3.Bool(f'J{l}_{r}') for r in range(nr)] for l in range(nl)]
    allv = [v for row in lb + rb for v in row] + lnan + rnan + rmiss + [j for row in J for j in row]
    assumptions = [row[0] <= row[2] for row in lb + rb] + [row[1] <= row[3] for row in lb + rb] + [z3.Implies(rmiss[i], rnan[i]) for i in range(nr)]
    for l in range(nl):
        for r in range(nr):
            overlap = z3.And(z3.Not(lnan[l]), z3.Not(rnan[r]), lb[l][2] >= rb[r][0], lb[l][0] <= rb[r][2], lb[l][3] >= rb[r][1], lb[l][1] <= rb[r][3])
            assumptions.append(z3.Implies(J[l][r], overlap))      # an exact intersection implies overlapping bounds (C13)
    ex = Explorer(assumptions, max_paths=max_paths)
    it.explorer = ex
    viol = None
    nq = 0
    outcomes = {'pairs': 0, 'nopairs': 0}
    while ex.work:
        if ex.paths >= max_paths or time.time() - t0 > timeout:
            return {'status': 'unknown', 'detail': f'budget exhausted after {ex.paths} paths', 'paths': ex.paths}
        script = ex.work.pop()
        ex.start(script)
        calls = []
        lbn = [[Num(lb[i][0], lnan[i]), Num(lb[i][1], lnan[i]), Num(lb[i][2], lnan[i]), Num(lb[i][3], lnan[i])] for i in range(nl)]
        rbounds = np.empty((nr, 4), dtype=object)
        for i in range(nr):
            for j in range(4):
                rbounds[i, j] = Num(rb[i][j], rnan[i])
        fpd = FakePd()
        left_df = Obj(geometry=Obj(sindex=FakeSindex(it, lbn, order), array=FakeLeftGeom(J, calls, lb, lnan)), n=nl)
        right_df = Obj(geometry=Obj(array=FakeRightGeom(it, rmiss), bounds=Obj(values=rbounds)), n=nr)
        Obj.__len__ = lambda self: self.n
        fr = Frame(True, f)
        fr.env = {'left_df': left_df, 'right_df': right_df, 'pd': fpd, 'how': 'inner', 'op': 'intersects', 'lsuffix': 'left', 'rsuffix': 'right'}
        raised = None
        try:
            it.block(stmts, fr, True)
        except Infeasible:
            continue
        except PathRaise as e:
            raised = f'{getattr(e.exc, "__name__", e.exc)}: {e.text}'
        ex.paths += 1
        conds = [z3.BoolVal(len(fpd.frames) == 1 and raised is None)]
        if len(fpd.frames) == 1 and raised is None:
            d = fpd.frames[0]
            kl = [int(x) for x in np.asarray(d.get('_key_left', []), dtype=object).ravel()] if '_key_left' in d else None
            kr = [int(x) for x in np.asarray(d.get('_key_right', []), dtype=object).ravel()] if '_key_right' in d else None
            conds.append(z3.BoolVal(kl is not None and kr is not None and len(kl) == len(kr)))
            if kl is not None and kr is not None and len(kl) == len(kr):
                pairs = list(zip(kl, kr))
                conds.append(z3.BoolVal(len(set(pairs)) == len(pairs) and all(0 <= a < nl and 0 <= b < nr for a, b in pairs)))
                for l in range(nl):
                    for r in range(nr):
                        conds.append(z3.BoolVal((l, r) in pairs) == J[l][r])
                outcomes['pairs' if pairs else 'nopairs'] += 1
        ex.solver.push()
        ex.solver.add(*ex.pc)
        ex.solver.add(z3.Not(z3.And(*conds)))
        ts = time.time()
        r_ = str(ex.solver.check())
        ex.solver_s += time.time() - ts
        nq += 1
        if r_ == 'sat':
            m = ex.solver.model()
            viol = {'model': model_ints(m, allv), 'pairs': str(fpd.frames)[:300], 'raised': raised}
            # prefer a rectangle-realisable counterexample (J == bounds overlap, positive extents)
            ex.solver.add(*[J[l][r] == z3.And(z3.Not(lnan[l]), z3.Not(rnan[r]), lb[l][2] >= rb[r][0], lb[l][0] <= rb[r][2], lb[l][3] >= rb[r][1], lb[l][1] <= rb[r][3])
                            for l in range(nl) for r in range(nr)])
            ex.solver.add(*[z3.And(lb[l][0] == lb[l][2], lb[l][1] == lb[l][3]) for l in range(nl)])     # left rows are points
            if str(ex.solver.check()) == 'sat':
                viol = {'model': model_ints(ex.solver.model(), allv), 'pairs': str(fpd.frames)[:300], 'rect': True, 'raised': raised}
                ex.solver.pop()
                break
            ex.solver.pop()
            # otherwise one realisable with two-point multipoints on a diagonal of the right bounds (a left point matches iff it is an end point)
            ex.solver.push()
            ex.solver.add(*ex.pc)
            ex.solver.add(z3.Not(z3.And(*conds)))
            dg = [z3.Bool(f'diag{r}') for r in range(nr)]
            ex.solver.add(*[z3.And(lb[l][0] == lb[l][2], lb[l][1] == lb[l][3]) for l in range(nl)])
            for l in range(nl):
                for r in range(nr):
                    px, py = lb[l][0], lb[l][1]
                    a = z3.If(dg[r], z3.Or(z3.And(px == rb[r][0], py == rb[r][1]), z3.And(px == rb[r][2], py == rb[r][3])),
                              z3.Or(z3.And(px == rb[r][0], py == rb[r][3]), z3.And(px == rb[r][2], py == rb[r][1])))
                    ex.solver.add(J[l][r] == z3.And(z3.Not(lnan[l]), z3.Not(rnan[r]), a))
            if str(ex.solver.check()) == 'sat':
                viol = {'model': model_ints(ex.solver.model(), allv + dg), 'pairs': str(fpd.frames)[:300], 'rect': 'diag', 'raised': raised}
            ex.solver.pop()
            break
        ex.solver.pop()
        if r_ != 'unsat':
            return {'status': 'unknown', 'detail': 'solver unknown', 'paths': ex.paths}
    out = {'paths': ex.paths, 'queries': ex.checks + nq, 'solver_s': round(ex.solver_s, 2), 'encoded': it.encoded, 'formula_size': ex.paths,
           'outcomes': outcomes, 'symex_s': round(time.time() - t0 - ex.solver_s, 2)}
    if viol:
        out.update(status='violated', **viol)
    elif nl and nr and (outcomes['pairs'] == 0 or outcomes['nopairs'] == 0):
        out.update(status='error', detail=f'vacuity: {outcomes}')
    else:
        out['status'] = 'holds'
    return out


def replay(nl, nr, model, rect):
    """public sjoin(inner) with left points and right rectangles / segments realising the model"""
    if not rect:
        return False, {'note': 'counterexample needs an exact predicate different from bounds overlap; no public-API replay built'}
    import pandas as pd
    import spatialpandas as sp
    import spatialpandas.geometry as sg
    from spatialpandas.tools.sjoin import sjoin
    names = [f'l{i}_{j}' for i in range(nl) for j in range(4)] + [f'r{i}_{j}' for i in range(nr) for j in range(4)]
    vals = sorted({model[k] for k in names})
    rk = {v: float(i) for i, v in enumerate(vals)}
    g = lambda k: rk[model[k]]   # noqa: E731
    if rect == 'diag':
        return replay_diag(nl, nr, model, rk)
    lpts, rshapes = [], []
    for i in range(nl):
        lpts.append(None if model.get(f'lnan{i}') else [g(f'l{i}_0'), g(f'l{i}_1')])
    kinds = set()
    for i in range(nr):
        if model.get(f'rmiss{i}'):
            rshapes.append(None)          # missing
            continue
        if model.get(f'rnan{i}'):
            rshapes.append([])            # empty: no coordinates, NaN bounds
            continue
        x0, y0, x1, y1 = g(f'r{i}_0'), g(f'r{i}_1'), g(f'r{i}_2'), g(f'r{i}_3')
        rshapes.append([x0, y0, x1, y0, x1, y1, x0, y1, x0, y0])
    # right shapes as multilines of the rectangle outline would miss interior points: use polygons unless degenerate
    degenerate = any(s and (s[0] == s[2] or s[1] == s[5]) for s in rshapes)
    left = sp.GeoDataFrame({'geometry': sg.PointArray(lpts, dtype='float64'), 'lid': list(range(nl))})
    if degenerate:
        # degenerate extents: segments / points; a left point lies on a segment iff inside its (degenerate) bounds
        right_geom = sg.LineArray([None if s is None else ([s[0], s[1], s[4], s[5]] if s else []) for s in rshapes], dtype='float64')
        if any(s and s[0] != s[2] and s[1] != s[5] for s in rshapes):
            return False, {'note': 'mix of degenerate and proper right extents: no single right geometry kind realises it'}
    else:
        right_geom = sg.PolygonArray([None if s is None else ([s] if s else []) for s in rshapes], dtype='float64')
    right = sp.GeoDataFrame({'geometry': right_geom, 'rid': list(range(nr))})
    want = []
    for l in range(nl):
        for r in range(nr):
            s = rshapes[r]
            if not s:
                continue                  # a missing or empty right geometry matches nothing (C17)
            x0, y0, x1, y1 = s[0], s[1], s[4], s[5]
            p = lpts[l]
            if p is None:
                continue                  # a missing left point matches nothing
            strictly = x0 < p[0] < x1 and y0 < p[1] < y1
            on_edge = (x0 <= p[0] <= x1 and y0 <= p[1] <= y1) and not strictly
            if degenerate:
                if x0 <= p[0] <= x1 and y0 <= p[1] <= y1:
                    want.append((l, r))
            elif strictly:
                want.append((l, r))
            elif on_edge:
                return False, {'note': 'left point on a polygon boundary: outside the guarantee'}
    wit = {'left_points': lpts, 'right_shapes': rshapes, 'right_kind': 'line' if degenerate else 'polygon'}
    wit['expected'] = sorted(want)
    try:
        res = sjoin(left, right, how='inner')
        got = sorted((int(a), int(b)) for a, b in zip(res['lid'], res['rid']))
    except Exception as e:  # noqa: BLE001
        wit['got'] = f'raises {type(e).__name__}: {e}'
        return True, wit
    wit.update(got=got, expected=sorted(want))
    return got != sorted(want), wit


def replay_diag(nl, nr, model, rk):
    """public sjoin(inner): left points, right two-point multipoints on a diagonal of their bounds"""
    import spatialpandas as sp
    import spatialpandas.geometry as sg
    from spatialpandas.tools.sjoin import sjoin
    g = lambda k: rk[model[k]]   # noqa: E731
    lpts = [None if model.get(f'lnan{i}') else [g(f'l{i}_0'), g(f'l{i}_1')] for i in range(nl)]
    rshapes = []
    for i in range(nr):
        if model.get(f'rmiss{i}'):
            rshapes.append(None)
        elif model.get(f'rnan{i}'):
            rshapes.append([])
        else:
            x0, y0, x1, y1 = g(f'r{i}_0'), g(f'r{i}_1'), g(f'r{i}_2'), g(f'r{i}_3')
            rshapes.append([x0, y0, x1, y1] if model.get(f'diag{i}') else [x0, y1, x1, y0])
    left = sp.GeoDataFrame({'geometry': sg.PointArray(lpts, dtype='float64'), 'lid': list(range(nl))})
    right = sp.GeoDataFrame({'geometry': sg.MultiPointArray(rshapes, dtype='float64'), 'rid': list(range(nr))})
    want = sorted((l, r) for l in range(nl) for r in range(nr) if lpts[l] is not None and rshapes[r]
                  and (lpts[l] == rshapes[r][:2] or lpts[l] == rshapes[r][2:]))
    wit = {'left_points': lpts, 'right_shapes': rshapes, 'right_kind': 'multipoint', 'expected': want}
    try:
        res = sjoin(left, right, how='inner')
        got = sorted((int(a), int(b)) for a, b in zip(res['lid'], res['rid']))
    except Exception as e:  # noqa: BLE001
        wit['got'] = f'raises {type(e).__name__}: {e}'
        return True, wit
    wit['got'] = got
    return got != want, wit
