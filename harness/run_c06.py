"""C06 driver (partial claim: total_bounds over partitions, Dask cx / cx_partitions glue with the real partition
R-tree, the pre-filter of the Dask sjoin)."""
from . import c06


def run(check, pool, Task):
    from . import validate
    validate.apply(check, ['rtree', 'bounds_kernels'])
    thorough = check.tier == 'thorough'
    cap = 1800 if thorough else 700
    check.bounds.update({'rows/partitions': '<= 3 rows in <= 3 partitions (4 rows thorough), incl. empty partitions and partitions holding only inert rows',
                         'outside': 'every provenance through parquet / pack_partitions, set_geometry on partitions versus meta, caching of partition bounds across '
                                    'derived frames (_propagate_props_*), map_partitions plumbing of bounds/area/length/intersects_bounds: dask and pandas internals, not '
                                    'encodable from this repository; the property is claimed at this partial strength only'})
    check.stubs += ['a partition is a list of row ids; obj.partitions[ids], to_delayed, delayed(cx_fn), dd.from_delayed/from_pandas are list operations',
                    'df.cx[...] inside a partition returns {i in partition : I_i} (C04) and records its key', 'partition bounds = NaN-skipping union of the rows (C13)',
                    'right_sindex.intersects per its C03 contract; delayed(_sjoin_pandas_pandas) records (partition, right rows)']
    tasks = []
    parts_tb = [[[0, 1], [2]], [[0], [], [1]], [[0, 1]], [[], [0]], [[], []], [[0], [1], [2]]]
    for p in parts_tb:
        tasks.append(Task(f'DaskGeoSeries.total_bounds partitions={p}', c06.q_total_bounds, (p,), timeout=300, meta={'kind': 'tb', 'part': p}))
    fam = [([[0]], 'cx'), ([[0], [1]], 'cx'), ([[0, 1], [2]], 'cx'), ([[0], [], [1]], 'cx'), ([[0, 1], [2]], 'cx_partitions'), ([[0], [], [1]], 'cx_partitions'),
           ([[], []], 'cx')]
    if thorough:
        fam += [([[0, 1], [2, 3]], 'cx'), ([[0], [1], [2]], 'cx'), ([[0, 1, 2]], 'cx'), ([[0], [1], [2]], 'cx_partitions')]
    for p, which in fam:
        for ps in ((512, 1) if len(p) > 1 else (512,)):
            tasks.append(Task(f'Dask {which} partitions={p} partition-index page size={ps}', c06.q_cx, (p,), {'which': which, 'page_size': ps, 'budget_s': cap - 30},
                              timeout=cap, meta={'kind': 'cx', 'part': p, 'which': which}))
    for p, nr, how in (([[0, 1], [2]], 2, 'inner'), ([[0], []], 1, 'left'), ([[0], [1]], 2, 'left'), ([[0, 1]], 1, 'inner')):
        tasks.append(Task(f'_sjoin_dask_pandas pre-filter partitions={p} right rows={nr} how={how}', c06.q_sjoin_prefilter, (p, nr), {'how': how, 'timeout': cap - 30},
                          timeout=cap, meta={'kind': 'sj'}))
    tasks.append(Task('DaskGeoSeries.partition_sindex is built from the bounds of all partitions, in order', c06.q_partition_sindex, (), timeout=120, meta={'kind': 'psi'}))
    res = pool(tasks)
    for t in tasks:
        r = res.get(t.name, {'status': 'error', 'detail': 'no result'})
        m = t.meta
        if m['kind'] == 'psi' and r['status'] == 'violated':
            bad, wit = replay_psi()
            if bad:
                v = check.violation('C06:partition_sindex', f"partition index keys are not partition numbers: {wit}", wit)
                check.record(t.name, dict(r, status='known-finding' if v == 'known' else 'violated'), 'paths', m)
            else:
                check.record(t.name, dict(r, status='inconclusive', detail='did not reproduce'), 'paths', m)
            continue
        if m['kind'] == 'tb' and r['status'] == 'sat':
            check.record(t.name, dict(r, status='inconclusive', detail='total_bounds over partitions differs from the union of the rows (no public-API replay for this obligation: '
                                                                      'needs a dask collection with the given partitioning)'), 'query', m)
            # try a replay anyway through a real dask series
            try:
                bad, wit = replay_tb(m['part'], r['model'])
                if bad:
                    check.obligations.pop()
                    check.inconclusive.pop()
                    v = check.violation('C06:total_bounds', f"Dask total_bounds {wit['got']} but the rows give {wit['expected']}", wit)
                    check.record(t.name, dict(r, status='known-finding' if v == 'known' else 'violated'), 'query', m)
            except Exception as e:  # noqa: BLE001
                check.log('replay_tb failed', repr(e))
        elif m['kind'] == 'cx' and r['status'] == 'violated':
            bad, wit = c06.replay_cx(m['part'], m['which'], r['model'], r.get('rect', False))
            if bad:
                v = check.violation(f"C06:{m['which']}", f"Dask {m['which']} returned rows {wit.get('got')} but exactly rows {wit.get('expected', wit.get('expected_superset_of'))} intersect", wit)
                check.record(t.name, dict(r, status='known-finding' if v == 'known' else 'violated'), 'paths', m)
            else:
                check.record(t.name, dict(r, status='inconclusive', detail=f'symbolic counterexample not reproduced through the public API: {str(wit)[:300]}'), 'paths', m)
        elif r['status'] == 'violated':
            check.record(t.name, dict(r, status='inconclusive', detail='pre-filter drops a matching right row in the model; no public-API replay built for this obligation'), 'paths', m)
        else:
            check.record(t.name, r, 'paths' if m['kind'] != 'tb' else 'query', m)


def replay_psi():
    """real dask frame whose first partition holds only missing geometries: cx must still find the rows of the later partitions"""
    import dask
    import dask.dataframe as dd
    import pandas as pd
    import spatialpandas as sp
    import spatialpandas.geometry as sg
    parts = [sp.GeoDataFrame({'geometry': sg.MultiPointArray([None, None], dtype='float64'), 'id': [0, 1]}, index=pd.Index([0, 1])),
             sp.GeoDataFrame({'geometry': sg.MultiPointArray([[0, 0], [1, 1]], dtype='float64'), 'id': [2, 3]}, index=pd.Index([2, 3])),
             sp.GeoDataFrame({'geometry': sg.MultiPointArray([[5, 5], [6, 6]], dtype='float64'), 'id': [4, 5]}, index=pd.Index([4, 5]))]
    with dask.config.set(scheduler='synchronous'):
        ddf = dd.from_delayed([dask.delayed(lambda x: x)(p) for p in parts], meta=parts[0].iloc[:0])
        got = sorted(int(x) for x in ddf.cx[4:7, 4:7].compute()['id'])
    return got != [4, 5], {'got': got, 'expected': [4, 5], 'partitions': 'first partition all missing'}


def replay_tb(partition, model):
    import dask
    import dask.dataframe as dd
    import numpy as np
    import pandas as pd
    import spatialpandas as sp
    import spatialpandas.geometry as sg
    n = sum(len(p) for p in partition)
    names = [f'b{i}_{j}' for i in range(n) for j in range(4)]
    vals = sorted({model[k] for k in names}) if names else []
    rk = {v: float(i) for i, v in enumerate(vals)}
    rows = {}
    for i in range(n):
        rows[i] = None if model.get(f'nan{i}') else [rk[model[f'b{i}_0']], rk[model[f'b{i}_1']], rk[model[f'b{i}_2']], rk[model[f'b{i}_3']]]
    parts = [sp.GeoSeries(sg.LineArray([rows[i] for i in p], dtype='float64'), index=pd.Index(list(p), dtype='int64')) for p in partition]
    live = [r for r in rows.values() if r is not None]
    nan = float('nan')
    want = (min(r[0] for r in live), min(r[1] for r in live), max(r[2] for r in live), max(r[3] for r in live)) if live else (nan,) * 4
    with dask.config.set(scheduler='synchronous'):
        ds = dd.from_delayed([dask.delayed(lambda x: x)(p) for p in parts], meta=parts[0].iloc[:0])
        import warnings
        with warnings.catch_warnings():
            warnings.simplefilter('ignore')
            got = tuple(float(x) for x in ds.total_bounds)
    same = all(a == b or (a != a and b != b) for a, b in zip(got, want))
    return not same, {'partitions': partition, 'rows': rows, 'got': got, 'expected': want}


def replay(path):
    import json
    print(json.dumps(json.load(open(path))['witness'], indent=1)[:3000])
    return 0
