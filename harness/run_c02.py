"""C02 driver (kernel level; wrapper/form-agreement obligations are added by harness.wrappers)."""
from . import c01, c02


QUICK = {'pip': [[[3]], [[4]], [[3, 3]], [[5]], [[6]], [[3], [3]]],
         'line_exact': [([1], 1), ([2], 1), ([3], 2), ([4], 1), ([2, 2], 2), ([1, 3], 1)],
         'multipoint': [0, 1, 3]}
THOROUGH = {'pip': [[[3]], [[4]], [[3, 3]], [[5]], [[6]], [[7]], [[8]], [[9]], [[10]], [[4, 4]], [[5, 5]], [[3, 3, 3]], [[4, 3, 3]], [[3], [3]], [[4], [3]], [[3, 3], [3]], [[4], [4], [3]]],
            'line_exact': [([1], 1), ([2], 1), ([3], 2), ([4], 1), ([2, 2], 2), ([1, 3], 1), ([6], 2), ([8], 1), ([3, 3], 2), ([2, 2, 2], 1)],
            'multipoint': [0, 1, 3, 5]}


def judge(check, name, rp):
    got, want, in_domain, wit = rp
    bad = {k: v for k, v in got.items() if list(v) != list(want)}
    if not bad:
        return 'spurious'
    if not in_domain:
        return 'out-of-domain'
    wit.update({'got': got, 'expected': want, 'obligation': name})
    r = check.violation(f"C02:{wit['kind']}", f"intersects={got} but exact oracle says {want} ({name})", wit)
    return 'known' if r == 'known' else 'violation'


def replay_model(check, name, meta, model):
    try:
        if meta['kind'] == 'pip':
            rp = c02.replay_pip(meta['shape'], model)
        elif meta['kind'] == 'line':
            rp = c02.replay_point_line(meta['parts'], model, meta['npoints'])
        else:
            rp = c02.replay_point_multipoint(meta['k'], model, meta['npoints'])
    except Exception as e:  # noqa: BLE001
        check.harness_error(f"replay of {name} failed: {type(e).__name__}: {e}")
        return 'spurious'
    return judge(check, name, rp)


def run(check, pool, Task, with_wrappers=True):
    from . import validate
    validate.apply(check, ['segments', 'pip', 'point_kernels'])
    tier = check.tier
    plan = THOROUGH if tier == 'thorough' else QUICK
    seeds = 4 if tier == 'thorough' else 3
    cap = 900 if tier == 'thorough' else 400
    check.bounds.update({'coordinates': '|v| <= 2^25', 'kernel_structures': {k: [list(x) if isinstance(x, tuple) else x for x in v] for k, v in plan.items()}})
    check.assumptions += ['polygon rings closed; the point lies on no ring segment (boundary points are outside the guarantee)',
                          'multipolygon: at most one part has non-zero winding around the point (disjoint interiors)',
                          'polygon kernel: symbolic x symbolic products uninterpreted + instances of lemmas proved in this run (E1, E2); line and multipoint kernels: exact integer arithmetic, no lemma']
    proved, failed = c01.lemma_phase(check, pool, Task, ['E1down', 'E1up', 'E2', 'P1'], seeds)
    tasks = []
    for sh in plan['pip']:
        tasks.append(Task(f'kernel:point_intersects_polygon rings={sh} (UF+lemmas)', c02.q_pip, (sh, proved), {'timeout': cap, 'seed': check.seed},
                          timeout=cap + 60, meta={'kind': 'pip', 'shape': sh}))
    for ps, npts in plan['line_exact']:
        tasks.append(Task(f'kernel:_perform_intersects_line parts={ps} points={npts} (exact)', c02.q_point_line, (ps, proved),
                          {'timeout': cap, 'seed': check.seed, 'npoints': npts, 'mode': 'exact'}, timeout=cap + 60,
                          meta={'kind': 'line', 'parts': ps, 'npoints': npts}))
    for k in plan['multipoint']:
        tasks.append(Task(f'kernel:_perform_intersects_multipoint k={k} points=2', c02.q_point_multipoint, (k,), {'timeout': cap}, timeout=cap + 60,
                          meta={'kind': 'multipoint', 'k': k, 'npoints': 2}))
    tasks.sort(key=lambda t: -sum(sum(x) for x in t.meta.get('shape', [[0]])))
    res = pool(tasks)
    need = set()
    for t in tasks:
        r = res.get(t.name, {'status': 'error', 'detail': 'no result'})
        if r['status'] == 'sat':
            v = replay_model(check, t.name, t.meta, r['model'])
            if v in ('violation', 'known'):
                check.record(t.name, dict(r, status='violated' if v == 'violation' else 'known-finding'), 'kernel', t.meta)
                continue
            need.add(t.meta['kind'])
            check.record(t.name, dict(r, status='candidate-' + v, detail=f'solver candidate did not reproduce ({v})'), 'kernel', t.meta)
        else:
            if r['status'] != 'unsat':
                need.add(t.meta['kind'])
            check.record(t.name, r, 'kernel', t.meta)
    if failed:
        need.add('pip')
    if need:
        stasks = []
        if 'pip' in need:
            for sh in ([[3]], [[4]], [[3, 3]], [[3], [3]]):
                for s in range(2):
                    stasks.append(Task(f'search:pip rings={sh}#{s}', c02.q_pip, (sh, set()), {'mode': 'exact', 'timeout': 150, 'seed': s},
                                       timeout=200, group=f'search:pip rings={sh}', meta={'kind': 'pip', 'shape': sh, 'noretry': True}))
        if 'line' in need:
            for ps in ([2], [3], [2, 2]):
                stasks.append(Task(f'search:line parts={ps}', c02.q_point_line, (ps, set()), {'mode': 'exact', 'timeout': 150, 'npoints': 2},
                                   timeout=200, meta={'kind': 'line', 'parts': ps, 'npoints': 2, 'noretry': True}))
        sres = pool(stasks)
        found = False
        seen = set()
        for t in stasks:
            if t.group in seen:
                continue
            seen.add(t.group)
            r = sres.get(t.group)
            if r is None:
                continue
            if r['status'] == 'sat':
                v = replay_model(check, t.group, t.meta, r['model'])
                check.record(t.group, dict(r, status={'violation': 'violated', 'known': 'known-finding'}.get(v, 'candidate-' + v)), 'search', t.meta)
                found = found or v in ('violation', 'known')
            else:
                check.record(t.group, dict(r, status='search-' + str(r['status'])), 'search', t.meta)
        for o in [o for o in check.obligations if str(o['status']).startswith(('candidate-', 'unsat-not-established'))]:
            if not found:
                check.inconc(f"{o['name']}: {o['status']} and the exact witness search found no reproducible counterexample")
    # float32 points against float32 shapes: float32-typed differences and products are rounded (values.F32, DESIGN 10.2)
    ftasks = [Task(f'kernel:float32 points and float32 {kind} of {st} vertices (float32-typed operations)#{sd}', c02.q_f32, (kind, st), {'timeout': 300, 'seed': check.seed + sd, 'solve': False},
                   timeout=400, group=f'f32:{kind}:{st}', meta={'kind': kind, 'st': st, 'noretry': True})
              for kind, st in (('line', 2), ('line', 3), ('polygon', 3), ('polygon', 4)) for sd in range(2)]
    check.bounds['float32'] = ('float32 points and float32 shape buffers, integer coordinates |c| <= 2^14 (products of differences exceed 2^24), sums, differences and '
                               'products of float32-typed values rounded to float32; a structure passes when its symbolic run has no float32-typed operation')
    fres = pool(ftasks)
    for grp in sorted({t.group for t in ftasks}):
        t = next(t for t in ftasks if t.group == grp)
        r = fres.get(grp, {'status': 'error', 'detail': 'no result'})
        nm = t.name.rsplit('#', 1)[0]
        if r['status'] == 'sat':
            try:
                bad, wit = c02.replay_f32(t.meta['kind'], t.meta['st'], r['model'])
            except Exception as e:  # noqa: BLE001
                bad, wit = False, {'exception': repr(e)}
            if bad:
                v = check.violation(f"C02:float32:{t.meta['kind']}", f"float32 point {wit['point']} against float32 {wit['kind']} {wit['shape']}: intersects={wit['got']} but the exact answer is {wit['expected']}", wit)
                check.record(nm, dict(r, status='known-finding' if v == 'known' else 'violated'), 'kernel', t.meta)
            else:
                check.record(nm, dict(r, status='inconclusive', detail=f'float32 counterexample did not reproduce: {str(wit)[:300]}'), 'kernel', t.meta)
        else:
            check.record(nm, dict(r, status='inconclusive' if r['status'] == 'unknown' else r['status']), 'kernel', t.meta)
    if with_wrappers:
        try:
            from . import wrappers
        except ImportError:
            return
        wrappers.run_c02(check, pool, Task)


def replay(path):
    import json
    print(json.dumps(json.load(open(path))['witness'], indent=1)[:3000])
    return 0
