"""C14 - length / area kernels (measures.py) and the nested map drivers of baselist.py.

area: exact integer polynomial identity with the shoelace sum (|v| <= 2^24, so every partial sum is exact in
float64).  length: `sqrt` is an uninterpreted function; coordinates carry NaN and infinity flags; the oracle sums
sqrt((dx)^2+(dy)^2) over exactly the segments whose four coordinates are finite.
"""
import time

import numpy as np
import z3

from pysym import values
from pysym.core import Interp, Stub
from pysym.values import Num, tz, wrapb

from .framework import formula_size, model_ints, z3_check

MEAS = 'spatialpandas.geometry._algorithms.measures'
BL = 'spatialpandas.geometry.baselist'
B24 = 1 << 24

SQ = z3.Function('sqrt_uf', z3.RealSort(), z3.RealSort())


def toreal(v):
    if z3.is_expr(v):
        return z3.ToReal(v) if z3.is_int(v) else v
    return z3.RealVal(v)


def sqrt_stub(x):
    """sqrt of a non-negative extended real: sqrt(+inf) = +inf, NaN propagates"""
    if not isinstance(x, Num):
        import math
        return math.sqrt(x)
    inf = x.inf
    return Num(SQ(toreal(x.v)), x.nan, inf)


def mk():
    values.set_mul_mode('exact')
    it = Interp()
    it.stubs['sqrt'] = Stub(sqrt_stub, 'math.sqrt -> uninterpreted sqrt_uf')
    return it


def shoelace2(ring):
    """twice the signed area of a closed ring (first vertex repeated)"""
    return z3.Sum([ring[i][0] * ring[i + 1][1] - ring[i + 1][0] * ring[i][1] for i in range(len(ring) - 1)] + [z3.IntVal(0)])


def flat_int(vs):
    arr = np.empty(2 * len(vs), dtype=object)
    for i, v in enumerate(vs):
        arr[2 * i] = Num(v[0])
        arr[2 * i + 1] = Num(v[1])
    return arr


def build_rings(ring_sizes, closed=True, prefix='r'):
    rings = []
    for ri, m in enumerate(ring_sizes):
        vs = [(z3.Int(f'{prefix}{ri}x{i}'), z3.Int(f'{prefix}{ri}y{i}')) for i in range(m)]
        rings.append(vs + [vs[0]] if (closed and m) else vs)
    return rings


def q_area(ring_sizes, timeout=120, seed=0, bnd=B24):
    """compute_area(values, ring offsets) * 2 == sum of shoelace sums of the rings with >= 3 stored vertices;
    reversing every ring negates it; translating all coordinates leaves it unchanged"""
    t0 = time.time()
    it = mk()
    rings = build_rings(ring_sizes)
    f = it.func(MEAS, 'compute_area')

    def area_of(rs):
        flat = [v for r in rs for v in r]
        offs = [0]
        for r in rs:
            offs.append(offs[-1] + 2 * len(r))
        return it.call(f, [flat_int(flat), np.array(offs, dtype=np.uint32)])
    a = Num.lift(area_of(rings))
    want2 = z3.Sum([shoelace2(r) for r in rings if len(r) >= 3] + [z3.IntVal(0)])
    arev = Num.lift(area_of([r[::-1] for r in rings]))
    tx, ty = z3.Int('tx'), z3.Int('ty')
    atr = Num.lift(area_of([[(v[0] + tx, v[1] + ty) for v in r] for r in rings]))
    allv = list({str(t): t for r in rings for v in r for t in v}.values())
    s = z3.Solver()
    for v in allv + [tx, ty]:
        s.add(v >= -bnd, v <= bnd)
    s.add(z3.Or(2 * toreal(a.v) != toreal(want2), toreal(arev.v) != -toreal(a.v), toreal(atr.v) != toreal(a.v),
                tz(wrapb(a.nan)), tz(wrapb(arev.nan))))
    st, m, dt = z3_check(s, timeout, seed)
    out = {'status': st, 'solver_s': round(dt, 3), 'formula_size': formula_size(s), 'encoded': it.encoded,
           'symex_s': round(time.time() - t0 - dt, 2)}
    if m is not None:
        out['model'] = model_ints(m, allv + [tx, ty])
    return out


def sym_line(k, prefix):
    """k vertices with Real coordinates + NaN and inf flags per coordinate"""
    vs, zvars, cons = [], [], []
    for i in range(k):
        pt = []
        for ax in 'xy':
            v = z3.Real(f'{prefix}{ax}{i}')
            n = z3.Bool(f'{prefix}{ax}{i}_nan')
            f = z3.Int(f'{prefix}{ax}{i}_inf')
            cons.append(z3.And(f >= -1, f <= 1))
            pt.append(Num(v, n, f))
            zvars += [v, n, f]
        vs.append(tuple(pt))
    return vs, zvars, cons


def fin(x):
    return z3.And(z3.Not(tz(wrapb(x.nan))), x.inf == 0)


def length_spec(parts):
    terms = []
    for p in parts:
        for i in range(len(p) - 1):
            a, b = p[i], p[i + 1]
            ok = z3.And(fin(a[0]), fin(a[1]), fin(b[0]), fin(b[1]))
            dx, dy = b[0].v - a[0].v, b[1].v - a[1].v
            terms.append(z3.If(ok, SQ(dx * dx + dy * dy), z3.RealVal(0)))
    return z3.Sum(terms + [z3.RealVal(0)])


def q_length(part_sizes, timeout=120, seed=0, nonfinite=True):
    """compute_line_length(values, offsets) == sum over finite-ended segments of sqrt_uf(dx^2+dy^2)"""
    t0 = time.time()
    it = mk()
    parts, zv, cons = [], [], []
    for pi, k in enumerate(part_sizes):
        vs, z, c = sym_line(k, f'p{pi}')
        parts.append(vs)
        zv += z
        cons += c
    flat = [v for p in parts for v in p]
    arr = np.empty(2 * len(flat), dtype=object)
    for i, v in enumerate(flat):
        arr[2 * i], arr[2 * i + 1] = v
    offs = [0]
    for p in parts:
        offs.append(offs[-1] + 2 * len(p))
    r = Num.lift(it.call(it.func(MEAS, 'compute_line_length'), [arr, np.array(offs, dtype=np.uint32)]))
    s = z3.Solver()
    s.add(*cons)
    if not nonfinite:
        for p in parts:
            for v in p:
                s.add(fin(v[0]), fin(v[1]))
    rinf = r.inf if z3.is_expr(r.inf) else z3.IntVal(r.inf)
    s.add(z3.Or(tz(wrapb(r.nan)), rinf != 0, toreal(r.v) != length_spec(parts)))
    st, m, dt = z3_check(s, timeout, seed)
    out = {'status': st, 'solver_s': round(dt, 3), 'formula_size': formula_size(s), 'encoded': it.encoded,
           'symex_s': round(time.time() - t0 - dt, 2)}
    if m is not None:
        out['model'] = model_ints(m, zv)
    return out


def q_map_nested(level, elems, missing, which='area', timeout=120, seed=0, lead=0):
    """_geometry_map_nested{1,2,3}(fn, result, values, offsets, missing): result[i] == fn over element i's own
    rings, missing rows keep the NaN pre-fill.  elems: per element, list of parts (level 3) / rings (level 2) /
    a vertex count (level 1); `lead` extra unused elements' worth of offsets in front (sliced array)."""
    t0 = time.time()
    it = mk()
    fn = it.func(MEAS, 'compute_area' if which == 'area' else 'compute_line_length')
    # normalise to: element -> parts -> rings -> nverts
    norm = []
    for e in elems:
        if level == 1:
            norm.append([[e]])
        elif level == 2:
            norm.append([list(e)])
        else:
            norm.append([list(p) for p in e])
    verts = []
    ring_offs = [0]
    part_offs = [0]
    elem_offs = [0]
    ring_lists = []     # per element: list of rings (as vertex lists)
    for ei, parts in enumerate(norm):
        rl = []
        for pi, rings in enumerate(parts):
            for ri, m in enumerate(rings):
                vs = [(z3.Int(f'e{ei}p{pi}r{ri}x{i}'), z3.Int(f'e{ei}p{pi}r{ri}y{i}')) for i in range(m)]
                ring = vs + [vs[0]] if (which == 'area' and m) else vs
                rl.append(ring)
                verts += ring
                ring_offs.append(ring_offs[-1] + 2 * len(ring))
            part_offs.append(len(ring_offs) - 1)
        elem_offs.append(len(part_offs) - 1)
        ring_lists.append(rl)
    n = len(elems)
    result = it.np.full(n, np.nan, dtype=np.float64)
    vals = flat_int(verts)
    if level == 1:
        offsets = (np.array(ring_offs, dtype=np.uint32),)
    elif level == 2:
        offsets = (np.array(part_offs, dtype=np.uint32), np.array(ring_offs, dtype=np.uint32))
    else:
        offsets = (np.array(elem_offs, dtype=np.uint32), np.array(part_offs, dtype=np.uint32), np.array(ring_offs, dtype=np.uint32))
    miss = np.array(missing, dtype=bool)
    it.call(it.func(BL, f'_geometry_map_nested{level}'), [fn, result, vals, offsets, miss])
    bad = []
    for i in range(n):
        r = Num.lift(result[i])
        if missing[i]:
            bad.append(z3.Not(tz(wrapb(r.nan))))
            continue
        if which == 'area':
            want2 = z3.Sum([shoelace2(rg) for rg in ring_lists[i] if len(rg) >= 3] + [z3.IntVal(0)])
            bad.append(z3.Or(tz(wrapb(r.nan)), 2 * toreal(r.v) != toreal(want2)))
        else:
            terms = []
            for rg in ring_lists[i]:
                for j in range(len(rg) - 1):
                    dx, dy = toreal(rg[j + 1][0] - rg[j][0]), toreal(rg[j + 1][1] - rg[j][1])
                    terms.append(SQ(dx * dx + dy * dy))
            bad.append(z3.Or(tz(wrapb(r.nan)), toreal(r.v) != z3.Sum(terms + [z3.RealVal(0)])))
    allv = list({str(t): t for v in verts for t in v}.values())
    s = z3.Solver()
    for v in allv:
        s.add(v >= -B24, v <= B24)
    s.add(z3.Or(*bad))
    st, m, dt = z3_check(s, timeout, seed)
    out = {'status': st, 'solver_s': round(dt, 3), 'formula_size': formula_size(s), 'encoded': it.encoded,
           'symex_s': round(time.time() - t0 - dt, 2)}
    if m is not None:
        out['model'] = model_ints(m, allv)
    return out


# ------------------------------------------------------------------------------------------------ replay
def replay_area(ring_sizes, model):
    from fractions import Fraction
    from spatialpandas.geometry._algorithms.measures import compute_area
    rings = []
    for ri, m in enumerate(ring_sizes):
        vs = [(model[f'r{ri}x{i}'], model[f'r{ri}y{i}']) for i in range(m)]
        rings.append(vs + [vs[0]] if m else vs)

    def real(rs, dx=0, dy=0):
        flat = [float(c) for r in rs for v in r for c in (v[0] + dx, v[1] + dy)]
        offs = [0]
        for r in rs:
            offs.append(offs[-1] + 2 * len(r))
        return float(compute_area(np.array(flat, dtype=np.float64), np.array(offs, dtype=np.uint32)))
    want = sum((Fraction(sum(r[i][0] * r[i + 1][1] - r[i + 1][0] * r[i][1] for i in range(len(r) - 1)), 2) for r in rings if len(r) >= 3), Fraction(0))
    got = real(rings)
    rev = real([r[::-1] for r in rings])
    tr = real(rings, model.get('tx', 0), model.get('ty', 0))
    bad = Fraction(got) != want or Fraction(rev) != -want or Fraction(tr) != want
    return bad, {'rings': rings, 'area': got, 'reversed': rev, 'translated': tr, 'shoelace': float(want),
                 'translation': [model.get('tx', 0), model.get('ty', 0)]}


def replay_length(part_sizes, model):
    """exact check is possible when the model is small: use fractions and compare squared sums segment-wise; we
    compare against math.hypot with a 1e-9 relative tolerance (the model's coordinates are rationals)"""
    import math
    from spatialpandas.geometry._algorithms.measures import compute_line_length
    parts = []
    for pi, k in enumerate(part_sizes):
        p = []
        for i in range(k):
            pt = []
            for ax in 'xy':
                nm = f'p{pi}{ax}{i}'
                if model.get(nm + '_nan'):
                    pt.append(float('nan'))
                elif model.get(nm + '_inf', 0):
                    pt.append(float('inf') * model[nm + '_inf'])
                else:
                    pt.append(float(model[nm]))
            p.append(tuple(pt))
        parts.append(p)
    flat = [c for p in parts for v in p for c in v]
    offs = [0]
    for p in parts:
        offs.append(offs[-1] + 2 * len(p))
    got = float(compute_line_length(np.array(flat, dtype=np.float64), np.array(offs, dtype=np.uint32)))
    want = 0.0
    for p in parts:
        for i in range(len(p) - 1):
            if all(math.isfinite(c) for c in p[i] + p[i + 1]):
                want += math.hypot(p[i + 1][0] - p[i][0], p[i + 1][1] - p[i][1])
    bad = not (abs(got - want) <= 1e-9 * max(1.0, abs(want)))
    return bad, {'parts': parts, 'length': got, 'expected': want}


# ------------------------------------------------------------------------------------------------ float32 coordinate buffers
def q_area_f32(ring_sizes, timeout=300, seed=0, bnd=B24, solve=True):
    """compute_area on a float32 coordinate buffer (values.F32 mode): numba types float32 (op) float32 as float32, so the
    differences and products of the shoelace terms are rounded to 24 significant bits before they reach the float64
    accumulator.  Integer coordinates |c| <= bnd (exactly representable in float32); exact multiplication.  With no
    float32-typed arithmetic in the symbolic run the encoding is the float64 one (`reduced`)."""
    t0 = time.time()
    values.F32.update(on=True, rounded=0, defs=[])
    try:
        it = mk()
        rings = build_rings(ring_sizes)
        flat = [v for r in rings for v in r]
        offs = [0]
        for r in rings:
            offs.append(offs[-1] + 2 * len(r))
        arr = np.empty(2 * len(flat), dtype=object)
        for i, v in enumerate(flat):
            arr[2 * i], arr[2 * i + 1] = Num(v[0], False, 0, True), Num(v[1], False, 0, True)
        a = Num.lift(it.call(it.func(MEAS, 'compute_area'), [arr, np.array(offs, dtype=np.uint32)]))
    finally:
        defs = values.F32['defs']
        values.F32.update(on=False, defs=None)
    rounded = values.F32['rounded']
    extra = {'f32_typed_operations': rounded, 'bound': bnd}
    if rounded == 0 and not solve:
        return {'status': 'unsat', 'reduced': True, 'solver_s': 0.0, 'queries': 0, 'formula_size': 1, 'encoded': it.encoded, 'symex_s': round(time.time() - t0, 2),
                'detail': 'no float32-typed arithmetic in the symbolic run: the encoding is the float64 one, decided by the float64 obligation of this structure', **extra}
    want2 = z3.Sum([shoelace2(r) for r in rings if len(r) >= 3] + [z3.IntVal(0)])
    allv = list({str(t): t for r in rings for v in r for t in v}.values())
    s = z3.Solver()
    for v in allv:
        s.add(v >= -bnd, v <= bnd)
    s.add(*defs)
    s.add(z3.Or(2 * toreal(a.v) != toreal(want2), tz(wrapb(a.nan))))
    st, m, dt = z3_check(s, timeout, seed)
    out = {'status': st, 'solver_s': round(dt, 3), 'formula_size': formula_size(s), 'encoded': it.encoded, 'queries': 1, 'symex_s': round(time.time() - t0 - dt, 2), **extra}
    if m is not None:
        out['model'] = model_ints(m, allv)
    return out


def replay_area_f32(ring_sizes, model):
    """real PolygonArray(float32).area (array and scalar forms) against the exact shoelace value"""
    from fractions import Fraction
    import spatialpandas.geometry as sg
    rings = [[(int(model.get(f'r{ri}x{i}', 0)), int(model.get(f'r{ri}y{i}', 0))) for i in range(m)] for ri, m in enumerate(ring_sizes)]
    closed = [r + [r[0]] for r in rings if r]
    want = float(sum((Fraction(sum(r[i][0] * r[i + 1][1] - r[i + 1][0] * r[i][1] for i in range(len(r) - 1)), 2) for r in closed if len(r) >= 3), Fraction(0)))
    arr = sg.PolygonArray([[[c for v in r for c in v] for r in closed]], dtype='float32')
    got = {'array': float(arr.area[0]), 'scalar': float(arr[0].area)}
    wit = {'kind': 'polygon', 'dtype': 'float32', 'rings': closed, 'got': got, 'expected': want}
    return any(v != want for v in got.values()), wit


def q_length_f32(timeout=300, seed=0, bnd=B24, solve=True):
    """compute_line_length on a float32 buffer holding one axis-parallel segment (y0 == y1): the float32 difference is
    rounded, its square and the sum are float32, sqrt(float32) is float32.  Stated restriction: the float32-rounded extent
    is a power of two (its square, the sum and the root are then exact: instance of sqrt_uf(t*t) == |t|); integer
    coordinates |c| <= bnd.  Oracle: the length is |x1 - x0| exactly."""
    t0 = time.time()
    values.F32.update(on=True, rounded=0, sum_exp=51, prod_exp=51, defs=[])
    try:
        it = mk()
        x0, y0, x1, y1 = [z3.Int(n) for n in ('r0x0', 'r0y0', 'r0x1', 'r0y1')]
        arr = np.empty(4, dtype=object)
        for i, v in enumerate((x0, y0, x1, y1)):
            arr[i] = Num(v, False, 0, True)
        r = Num.lift(it.call(it.func(MEAS, 'compute_line_length'), [arr, np.array([0, 4], dtype=np.uint32)]))
    finally:
        defs = values.F32['defs']
        values.F32.update(on=False, sum_exp=25, prod_exp=50, defs=None)
    rounded = values.F32['rounded']
    extra = {'f32_typed_operations': rounded, 'bound': bnd}
    if rounded == 0 and not solve:
        return {'status': 'unsat', 'reduced': True, 'solver_s': 0.0, 'queries': 0, 'formula_size': 1, 'encoded': it.encoded, 'symex_s': round(time.time() - t0, 2),
                'detail': 'no float32-typed arithmetic in the symbolic run: the encoding is the float64 one', **extra}
    s = z3.Solver()
    for v in (x0, y0, x1, y1):
        s.add(v >= -bnd, v <= bnd)
    s.add(y0 == y1)
    s.add(*defs)
    dx = z3.Int('dx32')
    s.add(dx == (values.rnd32_int(x1 - x0, 51) if rounded else (x1 - x0)))
    sq = dx * dx
    if rounded:
        # stated restriction: the float32 extent is a power of two (then its square, the sum and the square root are exact)
        s.add(z3.Or(*[z3.Or(dx == (1 << k), dx == -(1 << k)) for k in range(0, 26)]))
    # sqrt axiom instances for every sqrt_uf application in the result
    apps = []

    def walk(t, seen=set()):
        if t.get_id() in seen:
            return
        seen.add(t.get_id())
        if z3.is_app(t) and t.decl().name() == 'sqrt_uf':
            apps.append(t)
        for c in t.children():
            walk(c)
    rv = toreal(r.v)
    walk(rv)
    absdx = z3.If(dx >= 0, dx, -dx)
    for a_ in apps:
        s.add(z3.Implies(a_.arg(0) == z3.ToReal(sq), a_ == z3.ToReal(absdx)))
    want = z3.If(x1 >= x0, x1 - x0, x0 - x1)
    s.add(z3.Or(tz(wrapb(r.nan)), rv != z3.ToReal(want)))
    st, m, dt = z3_check(s, timeout, seed)
    out = {'status': st, 'solver_s': round(dt, 3), 'formula_size': formula_size(s), 'encoded': it.encoded, 'queries': 1, 'symex_s': round(time.time() - t0 - dt, 2),
           'sqrt_applications': len(apps), **extra}
    if m is not None:
        out['model'] = model_ints(m, [x0, y0, x1, y1])
    return out


def replay_length_f32(model):
    import spatialpandas.geometry as sg
    c = [int(model.get(n, 0)) for n in ('r0x0', 'r0y0', 'r0x1', 'r0y1')]
    want = float(abs(c[2] - c[0])) if c[1] == c[3] else None
    arr = sg.LineArray([c], dtype='float32')
    got = {'array': float(arr.length[0]), 'scalar': float(arr[0].length)}
    wit = {'kind': 'line', 'dtype': 'float32', 'coordinates': c, 'got': got, 'expected': want}
    return want is not None and any(v != want for v in got.values()), wit
