"""C15 - oriented(): orient_polygons kernel, fork on each ring's orientation test.

Per path (= per sign pattern of the ring areas) the output buffer is compared with the input: every ring is the
input ring or its reversal, shells with non-zero area end up counter-clockwise and holes clockwise (signed shoelace
area of the OUTPUT terms, polynomial identity decided by the solver), nothing outside the rings moves, and a second
application flips nothing.
"""
import time

import numpy as np
import z3

from pysym import values
from pysym.core import Explorer, Infeasible, Interp
from pysym.values import Num, tz

from .c14 import shoelace2
from .framework import model_ints

ORI = 'spatialpandas.geometry._algorithms.orientation'
B24 = 1 << 24


def explore(polys, lead_rings=0, timeout=300, max_paths=4000):
    """polys: list of polygons, each a list of ring sizes (distinct vertices, closed by repetition; size 0 = empty
    ring).  lead_rings: number of extra rings (triangles) in front that belong to no polygon of the (sliced)
    array: they must not be touched... (they may be, the kernel treats them as holes; only in-slice rings are
    compared)."""
    values.set_mul_mode('exact')
    t0 = time.time()
    it = Interp()
    rings = []          # (vertex list closed, is_shell, in_slice)
    poly_offsets = []
    for k in range(lead_rings):
        vs = [(z3.Int(f'l{k}x{i}'), z3.Int(f'l{k}y{i}')) for i in range(3)]
        rings.append((vs + [vs[0]], False, False))
    poly_offsets.append(len(rings))
    for pi, ring_sizes in enumerate(polys):
        for ri, m in enumerate(ring_sizes):
            vs = [(z3.Int(f'g{pi}r{ri}x{i}'), z3.Int(f'g{pi}r{ri}y{i}')) for i in range(m)]
            rings.append((vs + [vs[0]] if m else [], ri == 0, True))
        poly_offsets.append(len(rings))
    ring_offsets = [0]
    for r, _, _ in rings:
        ring_offsets.append(ring_offsets[-1] + 2 * len(r))
    allv = list({str(t): t for r, _, _ in rings for v in r for t in v}.values())
    assumptions = [z3.And(v >= -B24, v <= B24) for v in allv]
    ex = Explorer(assumptions, max_paths=max_paths)
    it.explorer = ex
    f = it.func(ORI, 'orient_polygons')
    nq = 0
    viol = None
    flips_seen = set()
    while ex.work:
        if ex.paths >= max_paths or time.time() - t0 > timeout:
            return {'status': 'unknown', 'detail': f'path/time budget exhausted after {ex.paths} paths', 'paths': ex.paths}
        script = ex.work.pop()
        ex.start(script)
        flat = np.empty(ring_offsets[-1], dtype=object)
        k = 0
        for r, _, _ in rings:
            for v in r:
                flat[k], flat[k + 1] = Num(v[0]), Num(v[1])
                k += 2
        inp = flat.copy()
        try:
            it.call(f, [flat, np.array(poly_offsets, dtype=np.uint32), np.array(ring_offsets, dtype=np.uint32)])
            n_first = ex.pos
            out1 = flat.copy()
            it.call(f, [flat, np.array(poly_offsets, dtype=np.uint32), np.array(ring_offsets, dtype=np.uint32)])
        except Infeasible:
            continue
        ex.paths += 1
        conds = []
        pattern = []
        for ri, (r, is_shell, in_slice) in enumerate(rings):
            a, b = ring_offsets[ri], ring_offsets[ri + 1]
            o = [(out1[j].v, out1[j + 1].v) for j in range(a, b, 2)]
            o2 = [(flat[j].v, flat[j + 1].v) for j in range(a, b, 2)]
            same = z3.And(*[z3.And(o[i][0] == r[i][0], o[i][1] == r[i][1]) for i in range(len(r))]) if r else z3.BoolVal(True)
            rev = z3.And(*[z3.And(o[i][0] == r[len(r) - 1 - i][0], o[i][1] == r[len(r) - 1 - i][1]) for i in range(len(r))]) if r else z3.BoolVal(True)
            if not in_slice:
                continue
            conds.append(z3.Or(same, rev))                                   # same vertices, same cyclic order or its reverse
            if len(r) >= 4:                                                  # >= 3 distinct stored vertices
                area2 = shoelace2(o)
                conds.append(z3.Implies(area2 != 0, (area2 > 0) if is_shell else (area2 < 0)))
                conds.append(z3.Or(shoelace2(r) == area2, shoelace2(r) == -area2))   # magnitude unchanged
            # idempotence: the second application leaves the ring as it is
            conds.append(z3.And(*[z3.And(o2[i][0] == o[i][0], o2[i][1] == o[i][1]) for i in range(len(r))]) if r else z3.BoolVal(True))
            pattern.append(bool(r) and not z3.is_true(z3.simplify(same)) )
        flips_seen.add(tuple(pattern))
        ex.solver.push()
        ex.solver.add(*ex.pc)
        ex.solver.add(z3.Not(z3.And(*conds)))
        ex.solver.set('timeout', 60000)
        ts = time.time()
        r_ = str(ex.solver.check())
        ex.solver_s += time.time() - ts
        nq += 1
        if r_ == 'sat':
            m = ex.solver.model()
            viol = {'model': model_ints(m, allv)}
            ex.solver.pop()
            break
        ex.solver.pop()
        if r_ != 'unsat':
            return {'status': 'unknown', 'detail': 'solver unknown on a path obligation', 'paths': ex.paths}
    out = {'paths': ex.paths, 'queries': ex.checks + nq, 'solver_s': round(ex.solver_s, 2), 'encoded': it.encoded,
           'formula_size': ex.paths, 'flip_patterns': len(flips_seen), 'symex_s': round(time.time() - t0 - ex.solver_s, 2)}
    if viol:
        out.update(status='violated', **viol)
        return out
    nonempty = [r for r, _, s_ in rings if s_ and len(r) >= 4]
    if nonempty and len(flips_seen) < 2:
        out.update(status='error', detail=f'vacuity: only flip patterns {flips_seen} reached')
        return out
    out['status'] = 'holds'
    return out


# ------------------------------------------------------------------------------------------------ replay
def replay(polys, lead_rings, model):
    """real orient_polygons on the model's coordinates; exact checks with python ints"""
    from spatialpandas.geometry._algorithms.orientation import orient_polygons
    rings, shells, in_slice = [], [], []
    poly_offsets = []
    for k in range(lead_rings):
        vs = [(model[f'l{k}x{i}'], model[f'l{k}y{i}']) for i in range(3)]
        rings.append(vs + [vs[0]])
        shells.append(False)
        in_slice.append(False)
    poly_offsets.append(len(rings))
    for pi, ring_sizes in enumerate(polys):
        for ri, m in enumerate(ring_sizes):
            vs = [(model[f'g{pi}r{ri}x{i}'], model[f'g{pi}r{ri}y{i}']) for i in range(m)]
            rings.append(vs + [vs[0]] if m else [])
            shells.append(ri == 0)
            in_slice.append(True)
        poly_offsets.append(len(rings))
    ring_offsets = [0]
    for r in rings:
        ring_offsets.append(ring_offsets[-1] + 2 * len(r))
    flat = np.array([float(c) for r in rings for v in r for c in v], dtype=np.float64)
    po, ro = np.array(poly_offsets, dtype=np.uint32), np.array(ring_offsets, dtype=np.uint32)
    v1 = flat.copy()
    orient_polygons(v1, po, ro)
    v2 = v1.copy()
    orient_polygons(v2, po, ro)
    problems = []

    def area2(pts):
        return sum(pts[i][0] * pts[i + 1][1] - pts[i + 1][0] * pts[i][1] for i in range(len(pts) - 1))
    for ri, r in enumerate(rings):
        if not in_slice[ri]:
            continue
        a, b = ring_offsets[ri], ring_offsets[ri + 1]
        o = [(int(v1[j]), int(v1[j + 1])) for j in range(a, b, 2)]
        if o != r and o != r[::-1]:
            problems.append(f'ring {ri}: output {o} is neither the input ring nor its reversal {r}')
        if len(r) >= 4:
            A = area2(o)
            if A != 0 and ((A > 0) != shells[ri]):
                problems.append(f"ring {ri} ({'shell' if shells[ri] else 'hole'}) has signed area*2 {A} after oriented()")
        if list(v2[a:b]) != list(v1[a:b]):
            problems.append(f'ring {ri}: second application changed the ring (not idempotent)')
    return bool(problems), {'rings': rings, 'poly_offsets': poly_offsets, 'ring_offsets': ring_offsets, 'after': v1.tolist(),
                            'after_twice': v2.tolist(), 'problems': problems}
