"""C15 - oriented(): orient_polygons kernel, fork on each ring's orientation test.

Per path (= per sign pattern of the ring areas) the output buffer is compared with the input: every ring is the
input ring or its reversal, shells with non-zero area end up counter-clockwise and holes clockwise (signed shoelace
area of the OUTPUT terms, polynomial identity decided by the solver), nothing outside the rings moves, and a second
application flips nothing.
"""
import time

import numpy as np
import z3

from pysym import values
from pysym.core import Explorer, Infeasible, Interp
from pysym.values import Num, tz

from .c14 import shoelace2
from .framework import model_ints

ORI = 'spatialpandas.geometry._algorithms.orientation'
B24 = 1 << 24


def _vars(t, acc=None, seen=None):
    acc = set() if acc is None else acc
    seen = set() if seen is None else seen
    stack = [t]
    while stack:
        x = stack.pop()
        if x.get_id() in seen:
            continue
        seen.add(x.get_id())
        if z3.is_const(x) and x.decl().kind() == z3.Z3_OP_UNINTERPRETED:
            acc.add(str(x))
        stack.extend(x.children())
    return acc


def check_sliced(solver, pc, conds, timeout_ms=60000, integral=None):
    """pc => every cond, decided cond by cond with only the path-condition literals that share variables with it
    (rings have disjoint coordinates, so this is the cone of influence).  -> ('unsat'|'sat'|'unknown', model, seconds, queries)"""
    pcv = [(_vars(l), l) for l in pc]
    total, nq = 0.0, 0
    for c in conds:
        if z3.is_true(z3.simplify(c)):
            continue
        cv = _vars(c)
        rel = [l for v, l in pcv if v & cv]
        solver.push()
        solver.add(*rel)
        solver.add(z3.Not(c))
        solver.set('timeout', timeout_ms)
        t = time.time()
        r = str(solver.check())
        total += time.time() - t
        nq += 1
        if r == 'sat':
            # confirm under the full path condition (the slice may have dropped a needed literal)
            solver.pop()
            solver.push()
            solver.add(*pc)
            solver.add(z3.Not(c))
            r2 = str(solver.check())
            nq += 1
            m = solver.model() if r2 == 'sat' else None
            if r2 == 'sat' and integral:
                # integer coordinate subtype: prefer an integral counterexample (the proof itself is done over the reals)
                solver.add(*[z3.IsInt(v) for v in integral])
                if str(solver.check()) == 'sat':
                    m = solver.model()
                nq += 1
            solver.pop()
            if r2 == 'sat':
                return 'sat', m, total, nq
            if r2 != 'unsat':
                return 'unknown', None, total, nq
            continue
        solver.pop()
        if r != 'unsat':
            return 'unknown', None, total, nq
    return 'unsat', None, total, nq


def trunc_stub(x):
    """float -> integer conversion of a finite value: truncation toward zero"""
    from pysym.values import Unsupported
    if not x.is_plain():
        raise Unsupported("float->int conversion of a possibly non-finite value")
    v = x.v
    if not z3.is_expr(v):
        return int(v)
    r = z3.ToReal(v) if z3.is_int(v) else v
    return Num(z3.If(r >= 0, z3.ToInt(r), -z3.ToInt(-r)))


def explore(polys, lead_rings=0, timeout=300, max_paths=4000, int_dtype=None):
    """polys: list of polygons, each a list of ring sizes (distinct vertices, closed by repetition; size 0 = empty
    ring).  lead_rings: number of extra rings (triangles) in front that belong to no polygon of the (sliced)
    array: they must not be touched... (they may be, the kernel treats them as holes; only in-slice rings are
    compared)."""
    values.set_mul_mode('exact')
    t0 = time.time()
    it = Interp()
    V = z3.Int if int_dtype else z3.Real       # reals: polynomial sign conditions decided by nlsat (unsat transfers to the integers); the
    # integer family stores coordinates into an integer-typed buffer, so its symbols must be integers
    rings = []          # (vertex list closed, is_shell, in_slice)
    poly_offsets = []
    for k in range(lead_rings):
        vs = [(V(f'l{k}x{i}'), V(f'l{k}y{i}')) for i in range(3)]
        rings.append((vs + [vs[0]], False, False))
    poly_offsets.append(len(rings))
    for pi, ring_sizes in enumerate(polys):
        for ri, m in enumerate(ring_sizes):
            vs = [(V(f'g{pi}r{ri}x{i}'), V(f'g{pi}r{ri}y{i}')) for i in range(m)]
            rings.append((vs + [vs[0]] if m else [], ri == 0, True))
        poly_offsets.append(len(rings))
    ring_offsets = [0]
    for r, _, _ in rings:
        ring_offsets.append(ring_offsets[-1] + 2 * len(r))
    allv = list({str(t): t for r, _, _ in rings for v in r for t in v}.values())
    assumptions = [z3.And(v >= -B24, v <= B24) for v in allv]
    ex = Explorer(assumptions, max_paths=max_paths)
    it.explorer = ex
    from pysym.core import Stub
    it.stubs['float_to_int'] = Stub(trunc_stub, 'float -> int store: truncation toward zero (finite values)')
    f = it.func(ORI, 'orient_polygons')
    nq = 0
    viol = None
    flips_seen = set()
    while ex.work:
        if ex.paths >= max_paths or time.time() - t0 > timeout:
            return {'status': 'unknown', 'detail': f'path/time budget exhausted after {ex.paths} paths', 'paths': ex.paths}
        script = ex.work.pop()
        ex.start(script)
        flat = np.empty(ring_offsets[-1], dtype=object)
        k = 0
        for r, _, _ in rings:
            for v in r:
                flat[k], flat[k + 1] = Num(v[0]), Num(v[1])
                k += 2
        if int_dtype:
            it.sdtype[id(flat)] = (flat, np.dtype(int_dtype))
        try:
            it.call(f, [flat, np.array(poly_offsets, dtype=np.uint32), np.array(ring_offsets, dtype=np.uint32)])
            n_first = ex.pos
            out1 = flat.copy()
            it.call(f, [flat, np.array(poly_offsets, dtype=np.uint32), np.array(ring_offsets, dtype=np.uint32)])
        except Infeasible:
            continue
        ex.paths += 1
        conds = []
        pattern = []
        flipped_of = {}
        for ri, (r, is_shell, in_slice) in enumerate(rings):
            a, b = ring_offsets[ri], ring_offsets[ri + 1]
            o = [(out1[j].v, out1[j + 1].v) for j in range(a, b, 2)]
            o2 = [(flat[j].v, flat[j + 1].v) for j in range(a, b, 2)]
            same = z3.And(*[z3.And(o[i][0] == r[i][0], o[i][1] == r[i][1]) for i in range(len(r))]) if r else z3.BoolVal(True)
            rev = z3.And(*[z3.And(o[i][0] == r[len(r) - 1 - i][0], o[i][1] == r[len(r) - 1 - i][1]) for i in range(len(r))]) if r else z3.BoolVal(True)
            if not in_slice:
                continue
            conds.append(z3.Or(same, rev))                                   # same vertices, same cyclic order or its reverse
            if len(r) >= 4:                                                  # >= 3 distinct stored vertices
                area2 = shoelace2(o)
                conds.append(z3.Implies(area2 != 0, (area2 > 0) if is_shell else (area2 < 0)))
                conds.append(z3.Or(shoelace2(r) == area2, shoelace2(r) == -area2))   # magnitude unchanged
            # idempotence: the second application leaves the ring as it is
            conds.append(z3.And(*[z3.And(o2[i][0] == o[i][0], o2[i][1] == o[i][1]) for i in range(len(r))]) if r else z3.BoolVal(True))
            pattern.append(bool(r) and not z3.is_true(z3.simplify(same)) )
            flipped_of[ri] = pattern[-1]
        flips_seen.add(tuple(pattern))
        # valid polygons (every hole wound opposite to its shell, non-zero areas) are flipped as a whole or not at all:
        # together with the symmetry lemmas of the oracle this gives invariance of every intersection result
        base_ring = lead_rings
        for ring_sizes in polys:
            idx = [base_ring + k for k in range(len(ring_sizes)) if len(rings[base_ring + k][0]) >= 4]
            base_ring += len(ring_sizes)
            if len(idx) >= 2 and len({flipped_of[i] for i in idx}) > 1:
                a_shell = shoelace2(rings[idx[0]][0])
                valid = z3.And(*[z3.Or(z3.And(a_shell > 0, shoelace2(rings[i][0]) < 0), z3.And(a_shell < 0, shoelace2(rings[i][0]) > 0)) for i in idx[1:]])
                conds.append(z3.Not(valid))
        r_, m, dt, k = check_sliced(ex.solver, ex.pc, conds)
        ex.solver_s += dt
        nq += k
        if r_ == 'sat':
            viol = {'model': model_ints(m, allv)}
            break
        if r_ != 'unsat':
            return {'status': 'unknown', 'detail': 'solver unknown on a path obligation', 'paths': ex.paths}
    out = {'paths': ex.paths, 'queries': ex.checks + nq, 'solver_s': round(ex.solver_s, 2), 'encoded': it.encoded,
           'formula_size': ex.paths, 'flip_patterns': len(flips_seen), 'symex_s': round(time.time() - t0 - ex.solver_s, 2)}
    if viol:
        out.update(status='violated', **viol)
        return out
    nonempty = [r for r, _, s_ in rings if s_ and len(r) >= 4]
    if nonempty and len(flips_seen) < 2:
        out.update(status='error', detail=f'vacuity: only flip patterns {flips_seen} reached')
        return out
    out['status'] = 'holds'
    return out


# ------------------------------------------------------------------------------------------------ replay
def replay(polys, lead_rings, model, int_dtype=None):
    """real orient_polygons on the model's coordinates; exact checks with python ints"""
    from spatialpandas.geometry._algorithms.orientation import orient_polygons
    rings, shells, in_slice = [], [], []
    poly_offsets = []
    for k in range(lead_rings):
        vs = [(model[f'l{k}x{i}'], model[f'l{k}y{i}']) for i in range(3)]
        rings.append(vs + [vs[0]])
        shells.append(False)
        in_slice.append(False)
    poly_offsets.append(len(rings))
    for pi, ring_sizes in enumerate(polys):
        for ri, m in enumerate(ring_sizes):
            vs = [(model[f'g{pi}r{ri}x{i}'], model[f'g{pi}r{ri}y{i}']) for i in range(m)]
            rings.append(vs + [vs[0]] if m else [])
            shells.append(ri == 0)
            in_slice.append(True)
        poly_offsets.append(len(rings))
    ring_offsets = [0]
    for r in rings:
        ring_offsets.append(ring_offsets[-1] + 2 * len(r))
    flat = np.array([float(c) for r in rings for v in r for c in v], dtype=np.dtype(int_dtype) if int_dtype else np.float64)
    po, ro = np.array(poly_offsets, dtype=np.uint32), np.array(ring_offsets, dtype=np.uint32)
    v1 = flat.copy()
    orient_polygons(v1, po, ro)
    v2 = v1.copy()
    orient_polygons(v2, po, ro)
    problems = []

    def area2(pts):
        return sum(pts[i][0] * pts[i + 1][1] - pts[i + 1][0] * pts[i][1] for i in range(len(pts) - 1))
    for ri, r in enumerate(rings):
        if not in_slice[ri]:
            continue
        a, b = ring_offsets[ri], ring_offsets[ri + 1]
        o = [(int(v1[j]), int(v1[j + 1])) for j in range(a, b, 2)]
        if o != r and o != r[::-1]:
            problems.append(f'ring {ri}: output {o} is neither the input ring nor its reversal {r}')
        if len(r) >= 4:
            A = area2(o)
            if A != 0 and ((A > 0) != shells[ri]):
                problems.append(f"ring {ri} ({'shell' if shells[ri] else 'hole'}) has signed area*2 {A} after oriented()")
        if list(v2[a:b]) != list(v1[a:b]):
            problems.append(f'ring {ri}: second application changed the ring (not idempotent)')
    return bool(problems), {'rings': rings, 'poly_offsets': poly_offsets, 'ring_offsets': ring_offsets, 'after': v1.tolist(),
                            'after_twice': v2.tolist(), 'problems': problems}


# ------------------------------------------------------------------------------------------------ wrapper level (tagged arrays)
C15_BASE = {'polygon': [[3, 3], None, [], [4], [3]], 'multipolygon': [[[3], [3, 3]], None, [], [[4]], [[3]]]}


def oriented_task(kind, deriv, timeout=600, max_paths=3000, base=None, sort='real', dtype='float64'):
    """PolygonArray / MultiPolygonArray.oriented() on a tagged (possibly derived) array, fork on every ring's
    orientation; per path: rings kept or reversed (tag identity), shells ccw / holes cw when the area is non-zero,
    part/ring counts and missing mask preserved, input untouched, second application changes nothing"""
    from . import tagged as T
    from .wrappers import BASE, DERIVS
    values.set_mul_mode('exact')
    t0 = time.time()
    bound = B24
    integral = np.dtype(dtype).kind in 'iu'
    if integral:
        sort, bound = 'real', ((1 << 14) if np.dtype(dtype).itemsize == 2 else 1 << 24)     # proved over the reals; integral, representable counterexamples are searched on demand
    ts = T.TagSpace(sort=sort)
    specs = base if base is not None else C15_BASE[kind]
    src, _ = T.build_array(ts, kind, specs, dtype)
    arr = DERIVS[deriv][0](src)
    before_src = [T.element_tags(kind, src[i]) for i in range(len(src))]
    in_tags = [T.element_tags(kind, arr[i]) for i in range(len(arr))]
    it = ts.install(Interp())
    from pysym.core import Stub
    it.stubs['float_to_int'] = Stub(trunc_stub, 'float -> int store: truncation toward zero (finite values)')
    ex = Explorer([z3.And(v >= -bound, v <= bound) for v in ts.zvars], max_paths=max_paths)
    ex.slice_feasibility = True          # rings have disjoint coordinates: a ring's sign conditions do not depend on the other rings' literals
    it.explorer = ex
    nq = 0
    viol = None
    patterns = set()

    def rings_of(tags):
        if tags is None:
            return None
        return [r for part in tags for r in part] if kind == 'multipolygon' else list(tags)

    def shell_flags(tags):
        if kind == 'multipolygon':
            return [i == 0 for part in tags for i, _ in enumerate(part)]
        return [i == 0 for i, _ in enumerate(tags)]

    def pts(flat):
        return [(ts.symbol(flat[i]).v, ts.symbol(flat[i + 1]).v) for i in range(0, len(flat), 2)]
    while ex.work:
        if ex.paths >= max_paths or time.time() - t0 > timeout:
            return {'status': 'unknown', 'detail': f'path/time budget exhausted after {ex.paths} paths', 'paths': ex.paths}
        script = ex.work.pop()
        ex.start(script)
        try:
            out = it.call(it.getattr_(arr, 'oriented', None, True), [])
            out2 = it.call(it.getattr_(out, 'oriented', None, True), [])
        except Infeasible:
            continue
        ex.paths += 1
        problems = []
        conds = []
        if type(out) is not type(arr) or len(out) != len(arr):
            problems.append(f'result is {type(out).__name__} of length {len(out)}')
        else:
            out_tags = [T.element_tags(kind, out[i]) for i in range(len(out))]
            out2_tags = [T.element_tags(kind, out2[i]) for i in range(len(out2))]
            flips = []
            for j, (a, b) in enumerate(zip(in_tags, out_tags)):
                if (a is None) != (b is None):
                    problems.append(f'element {j}: missing flag changed')
                    continue
                if a is None:
                    continue
                if kind == 'multipolygon' and [len(p) for p in a] != [len(p) for p in b]:
                    problems.append(f'element {j}: part/ring counts changed')
                    continue
                ra, rb = rings_of(a), rings_of(b)
                if len(ra) != len(rb):
                    problems.append(f'element {j}: ring count changed')
                    continue
                for k, (x, y, shell) in enumerate(zip(ra, rb, shell_flags(a))):
                    rev = [c for i in range(len(x) - 2, -1, -2) for c in (x[i], x[i + 1])]
                    if y != x and y != rev:
                        problems.append(f'element {j} ring {k}: vertices changed: {x} -> {y}')
                        continue
                    flips.append(y != x)
                    if len(y) >= 8:
                        o = pts(y)
                        area2 = shoelace2(o)
                        conds.append(z3.Implies(area2 != 0, (area2 > 0) if shell else (area2 < 0)))
            if out2_tags != out_tags:
                problems.append('second application of oriented() changed the array (not idempotent)')
            patterns.add(tuple(flips))
        if [T.element_tags(kind, src[i]) for i in range(len(src))] != before_src:
            problems.append('the input array was modified')
        if problems:
            ex.solver.push()
            ex.solver.add(*ex.pc)
            st = str(ex.solver.check())
            nq += 1
            m = ex.solver.model() if st == 'sat' else None
            ex.solver.pop()
            viol = {'model': model_ints(m, ts.zvars) if m is not None else {}, 'problems': problems}
            break
        r_, m, dt, k = check_sliced(ex.solver, ex.pc, conds, integral=ts.zvars if integral else None)
        ex.solver_s += dt
        nq += k
        if r_ == 'sat':
            viol = {'model': model_ints(m, ts.zvars), 'problems': ['ring orientation after oriented() is wrong on this path']}
            break
        if r_ != 'unsat':
            return {'status': 'unknown', 'detail': 'solver unknown on a path obligation', 'paths': ex.paths}
    out_d = {'paths': ex.paths, 'queries': ex.checks + nq, 'solver_s': round(ex.solver_s, 2), 'encoded': it.encoded, 'formula_size': ex.paths,
             'flip_patterns': len(patterns), 'symex_s': round(time.time() - t0 - ex.solver_s, 2), 'specs': specs}
    if viol:
        out_d.update(status='violated', **viol)
        return out_d
    if len(arr) and any(t is not None and any(len(r) >= 8 for r in rings_of(t)) for t in in_tags) and len(patterns) < 2:
        out_d.update(status='error', detail=f'vacuity: flip patterns {patterns}')
        return out_d
    out_d['status'] = 'holds'
    return out_d


def replay_oriented(kind, deriv, model, specs=None, dtype='float64'):
    """real oriented() on the concrete array; exact integer checks of every clause"""
    from .wrappers import BASE, DERIVS, concrete_array
    specs = specs or C15_BASE[kind]
    src = concrete_array(kind, specs, dtype, model)
    arr = DERIVS[deriv][0](src)
    snap = [None if src[i] is None else src[i].data.as_py() for i in range(len(src))]
    problems = []
    try:
        out = arr.oriented()
        out2 = out.oriented()
    except Exception as e:  # noqa: BLE001
        return True, {'kind': kind, 'derivation': deriv, 'problems': [f'oriented() raises {type(e).__name__}: {e}'],
                      'elements': [None if arr[i] is None else arr[i].data.as_py() for i in range(len(arr))]}

    def rings(e):
        d = e.data.as_py()
        return [(r, i == 0) for part in d for i, r in enumerate(part)] if kind == 'multipolygon' else [(r, i == 0) for i, r in enumerate(d)]

    def area2(r):
        p = [(r[i], r[i + 1]) for i in range(0, len(r), 2)]
        return sum(p[i][0] * p[i + 1][1] - p[i + 1][0] * p[i][1] for i in range(len(p) - 1))
    if len(out) != len(arr):
        problems.append('length changed')
    for j in range(min(len(out), len(arr))):
        a, b = arr[j], out[j]
        if (a is None) != (b is None):
            problems.append(f'element {j}: missing flag changed')
            continue
        if a is None:
            continue
        ra, rb = rings(a), rings(b)
        if kind == 'multipolygon' and [len(p) for p in a.data.as_py()] != [len(p) for p in b.data.as_py()]:
            problems.append(f'element {j}: part/ring counts changed')
        if len(ra) != len(rb):
            problems.append(f'element {j}: ring count changed')
            continue
        for k, ((x, shell), (y, _)) in enumerate(zip(ra, rb)):
            rev = [c for i in range(len(x) - 2, -1, -2) for c in (x[i], x[i + 1])]
            if y != x and y != rev:
                problems.append(f'element {j} ring {k}: vertices changed {x} -> {y}')
            elif len(y) >= 8:
                A = area2(y)
                if A != 0 and ((A > 0) != shell):
                    problems.append(f"element {j} ring {k} ({'shell' if shell else 'hole'}): signed area*2 = {A} after oriented()")
    if [None if out2[i] is None else out2[i].data.as_py() for i in range(len(out2))] != [None if out[i] is None else out[i].data.as_py() for i in range(len(out))]:
        problems.append('second application changed the array (not idempotent)')
    if [None if src[i] is None else src[i].data.as_py() for i in range(len(src))] != snap:
        problems.append('the input array was modified')
    return bool(problems), {'kind': kind, 'derivation': deriv, 'problems': problems,
                            'elements': [None if arr[i] is None else arr[i].data.as_py() for i in range(len(arr))],
                            'oriented': [None if out[i] is None else out[i].data.as_py() for i in range(len(out))]}


def symmetry_lemma(name, bnd=1 << 25, timeout=120, seed=0):
    """oracle symmetry under reversal of a ring: a segment is separated from a box in either direction, and the
    winding contribution of an edge changes sign (so wn != 0 is unchanged when ALL rings of a polygon are reversed)"""
    from . import geom as G
    from .framework import formula_size, z3_check
    values.set_mul_mode('exact')
    P = (z3.Int('px'), z3.Int('py'))
    Q = (z3.Int('qx'), z3.Int('qy'))
    c = (z3.Int('cx'), z3.Int('cy'))
    box = tuple(z3.Int(n) for n in ('x0', 'y0', 'x1', 'y1'))
    s = z3.Solver()
    for v in [*P, *Q, *c, *box]:
        s.add(v >= -bnd, v <= bnd)
    s.add(box[0] < box[2], box[1] < box[3])
    if name == 'Dsym':
        s.add(G.Dsep(P, Q, box) != G.Dsep(Q, P, box))
    else:
        s.add(G.wn_up_edge(P, Q, c) != -G.wn_up_edge(Q, P, c))
    st, m, dt = z3_check(s, timeout, seed)
    return {'status': st, 'solver_s': round(dt, 3), 'formula_size': formula_size(s), 'encoded': {}}
