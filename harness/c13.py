"""C13 - bounds / total_bounds kernels: finite-only min/max, NaN when nothing finite.

Coordinates are Real symbols with a NaN flag and an infinity flag each (comparison-only code: Real results transfer
to floats).
"""
import time

import numpy as np
import z3

from pysym import values
from pysym.core import Interp
from pysym.values import Num, tz, wrapb

from .framework import formula_size, model_ints, z3_check

BND = 'spatialpandas.geometry._algorithms.bounds'


def sym_coords(k, prefix='v'):
    """k coordinates -> (Num list, z3 vars, constraints)"""
    out, vs, cons = [], [], []
    for i in range(k):
        v = z3.Real(f'{prefix}{i}')
        n = z3.Bool(f'{prefix}{i}_nan')
        f = z3.Int(f'{prefix}{i}_inf')
        cons.append(z3.And(f >= -1, f <= 1))
        out.append(Num(v, n, f))
        vs += [v, n, f]
    return out, vs, cons


def finite(x):
    return z3.And(z3.Not(tz(wrapb(x.nan))), x.inf == 0)


def minmax_spec(res, xs, is_min):
    """res (Num) is the min/max over the finite xs, NaN when none"""
    res = Num.lift(res)
    fin = [finite(x) for x in xs]
    anyf = z3.Or(*fin) if fin else z3.BoolVal(False)
    rn = tz(wrapb(res.nan))
    rinf = res.inf if z3.is_expr(res.inf) else z3.IntVal(res.inf)
    rv = res.v if z3.is_expr(res.v) else z3.RealVal(res.v)
    ok_val = z3.And(z3.Not(rn), rinf == 0,
                    *[z3.Implies(f, (rv <= x.v) if is_min else (rv >= x.v)) for f, x in zip(fin, xs)],
                    z3.Or(*[z3.And(f, rv == x.v) for f, x in zip(fin, xs)]) if fin else z3.BoolVal(False))
    return z3.If(anyf, ok_val, rn)


def q_total_bounds(nverts, timeout=120, seed=0):
    """total_bounds_interleaved and total_bounds_interleaved_1d on 2*nverts symbolic values"""
    values.set_mul_mode('exact')
    t0 = time.time()
    it = Interp()
    xs, vs, cons = sym_coords(2 * nverts)
    arr = np.empty(2 * nverts, dtype=object)
    for i, x in enumerate(xs):
        arr[i] = x
    tb = it.call(it.func(BND, 'total_bounds_interleaved'), [arr])
    tbx = it.call(it.func(BND, 'total_bounds_interleaved_1d'), [arr, 0])
    tby = it.call(it.func(BND, 'total_bounds_interleaved_1d'), [arr, 1])
    X, Y = xs[0::2], xs[1::2]
    spec = z3.And(minmax_spec(tb[0], X, True), minmax_spec(tb[1], Y, True), minmax_spec(tb[2], X, False), minmax_spec(tb[3], Y, False),
                  minmax_spec(tbx[0], X, True), minmax_spec(tbx[1], X, False), minmax_spec(tby[0], Y, True), minmax_spec(tby[1], Y, False))
    s = z3.Solver()
    s.add(*cons)
    nq = 0
    if nverts:
        # vacuity: a finite result and a NaN result are both reachable
        for ex in (z3.Not(tz(wrapb(Num.lift(tb[0]).nan))), tz(wrapb(Num.lift(tb[0]).nan))):
            s.push()
            s.add(ex)
            st, _, _ = z3_check(s, 30)
            nq += 1
            s.pop()
            if st != 'sat':
                return {'status': 'error', 'detail': 'vacuity twin failed'}
    s.add(z3.Not(spec))
    st, m, dt = z3_check(s, timeout, seed)
    out = {'status': st, 'solver_s': round(dt, 3), 'formula_size': formula_size(s), 'encoded': it.encoded, 'queries': nq + 1,
           'symex_s': round(time.time() - t0 - dt, 2)}
    if m is not None:
        out['model'] = model_ints(m, vs)
    return out


def q_bounds_rows(elem_sizes, timeout=120, seed=0, lead=0):
    """bounds_interleaved(flat_values, offsets): row i == min/max over element i (offsets may start at `lead`>0)"""
    values.set_mul_mode('exact')
    t0 = time.time()
    it = Interp()
    total = lead + sum(elem_sizes)
    xs, vs, cons = sym_coords(2 * total)
    arr = np.empty(2 * total, dtype=object)
    for i, x in enumerate(xs):
        arr[i] = x
    offs = [2 * lead]
    for k in elem_sizes:
        offs.append(offs[-1] + 2 * k)
    b = it.call(it.func(BND, 'bounds_interleaved'), [arr, np.array(offs, dtype=np.uint32)])
    terms = [z3.BoolVal(b.shape == (len(elem_sizes), 4))]
    for r, k in enumerate(elem_sizes):
        seg = xs[offs[r]:offs[r + 1]]
        X, Y = seg[0::2], seg[1::2]
        terms += [minmax_spec(b[r, 0], X, True), minmax_spec(b[r, 1], Y, True), minmax_spec(b[r, 2], X, False), minmax_spec(b[r, 3], Y, False)]
    s = z3.Solver()
    s.add(*cons)
    s.add(z3.Not(z3.And(*terms)))
    st, m, dt = z3_check(s, timeout, seed)
    out = {'status': st, 'solver_s': round(dt, 3), 'formula_size': formula_size(s), 'encoded': it.encoded,
           'symex_s': round(time.time() - t0 - dt, 2)}
    if m is not None:
        out['model'] = model_ints(m, vs)
    return out


# ------------------------------------------------------------------------------------------------ replay
def model_floats(model, k, prefix='v'):
    out = []
    vals = sorted({model[f'{prefix}{i}'] for i in range(k)})
    rank = {v: float(i) for i, v in enumerate(vals)}
    for i in range(k):
        if model.get(f'{prefix}{i}_nan'):
            out.append(float('nan'))
        elif model.get(f'{prefix}{i}_inf', 0):
            out.append(float('inf') * model[f'{prefix}{i}_inf'])
        else:
            out.append(rank[model[f'{prefix}{i}']])
    return out


def exact_bounds(vals):
    X = [v for v in vals[0::2] if np.isfinite(v)]
    Y = [v for v in vals[1::2] if np.isfinite(v)]
    nan = float('nan')
    return (min(X) if X else nan, min(Y) if Y else nan, max(X) if X else nan, max(Y) if Y else nan)


def same(a, b):
    return len(a) == len(b) and all(x == y or (x != x and y != y) for x, y in zip(a, b))


def replay_total(nverts, model):
    from spatialpandas.geometry._algorithms.bounds import total_bounds_interleaved, total_bounds_interleaved_1d
    vals = model_floats(model, 2 * nverts)
    a = np.array(vals, dtype=np.float64)
    got = tuple(float(x) for x in total_bounds_interleaved(a))
    gx = tuple(float(x) for x in total_bounds_interleaved_1d(a, 0))
    gy = tuple(float(x) for x in total_bounds_interleaved_1d(a, 1))
    want = exact_bounds(vals)
    bad = not same(got, want) or not same(gx, (want[0], want[2])) or not same(gy, (want[1], want[3]))
    return bad, {'values': vals, 'total_bounds': got, 'total_bounds_x': gx, 'total_bounds_y': gy, 'expected': want}


def replay_rows(elem_sizes, lead, model):
    from spatialpandas.geometry._algorithms.bounds import bounds_interleaved
    total = lead + sum(elem_sizes)
    vals = model_floats(model, 2 * total)
    offs = [2 * lead]
    for k in elem_sizes:
        offs.append(offs[-1] + 2 * k)
    got = bounds_interleaved(np.array(vals, dtype=np.float64), np.array(offs, dtype=np.uint32))
    want = [exact_bounds(vals[offs[r]:offs[r + 1]]) for r in range(len(elem_sizes))]
    bad = got.shape != (len(elem_sizes), 4) or any(not same(tuple(float(x) for x in got[r]), want[r]) for r in range(len(elem_sizes)))
    return bad, {'values': vals, 'offsets': offs, 'bounds': got.tolist(), 'expected': want}
