"""C14 driver: measures kernels (exact area identities, length with uninterpreted sqrt) + nested map drivers +
tagged wrappers (array/scalar forms, missing -> NaN)."""
from . import c14, wrappers


def run(check, pool, Task):
    from . import validate
    validate.apply(check, ['measures'])
    thorough = check.tier == 'thorough'
    cap = 600
    check.bounds.update({'area': 'rings of <= 6 (8) vertices, <= 3 rings, |v| <= 2^24, exact integer identity (x2)',
                         'length': 'lines of <= 4 (6) vertices, <= 3 parts, Real coordinates with NaN and infinity flags; sqrt uninterpreted',
                         'outside': 'float rounding / summation order (the model is exact), the 1e-12 clause'})
    check.stubs.append('math.sqrt -> uninterpreted function sqrt_uf (sqrt(+inf) = +inf, NaN propagates)')
    check.assumptions += ['rings are stored closed (first vertex repeated) for the shoelace identity']
    tasks = []
    for rs in ([0], [1], [2], [3], [4], [6], [3, 3], [4, 3, 3], [2, 3], [1, 3], [3, 1], [3, 0, 3]) + (([8], [5, 4], [3, 3, 3, 3]) if thorough else ()):
        tasks.append(Task(f'kernel:compute_area rings={rs} (== shoelace/2, reversal negates, translation invariant)', c14.q_area, (rs,), {'seed': check.seed},
                          timeout=cap, meta={'kind': 'area', 'rs': rs}))
    for ps in ([1], [2], [3], [4], [2, 2], [3, 1, 2]) + (([6], [3, 3, 2]) if thorough else ()):
        tasks.append(Task(f'kernel:compute_line_length parts={ps} (NaN/inf vertices break the line)', c14.q_length, (ps,), {'seed': check.seed}, timeout=cap,
                          meta={'kind': 'length', 'ps': ps}))
    maps = [(1, [3, 1, 2], [False, True, False], 'length'), (2, [[3, 3], [3], [4]], [False, True, False], 'area'),
            (2, [[3, 2], [], [2]], [False, True, False], 'length'), (3, [[[3], [3, 3]], [], [[4]]], [False, True, False], 'area'),
            (3, [[[2], [3]], [[2]], []], [False, False, True], 'length'), (1, [0, 2], [True, False], 'length')]
    for lv, el, ms, wh in maps:
        tasks.append(Task(f'kernel:_geometry_map_nested{lv} {wh} elements={el} missing={ms}', c14.q_map_nested, (lv, el, ms), {'which': wh, 'seed': check.seed},
                          timeout=cap, meta={'kind': 'map'}))
    # float32 coordinate buffers: float32-typed sums, differences and products are rounded to 24 bits (values.F32)
    for rs, solve in (([3], True), ([4], False), ([3, 3], False)) + ((([4], True), ([6], False)) if thorough else ()):
        tasks.append(Task(f"kernel:compute_area on a float32 buffer, rings={rs} ({'exact, monolithic' if solve else 'float32-typed operations'})", c14.q_area_f32, (rs,),
                          {'seed': check.seed, 'solve': solve, 'timeout': 300}, timeout=cap, meta={'kind': 'area32', 'rs': rs, 'noretry': True}))
    tasks.append(Task('kernel:compute_line_length on a float32 buffer, one axis-parallel segment (extent a power of two after rounding)', c14.q_length_f32, (),
                      {'seed': check.seed, 'timeout': 300}, timeout=cap, meta={'kind': 'length32', 'noretry': True}))
    check.bounds['float32'] = ('integer coordinates |c| <= 2^24, float32 (op) float32 rounded to float32 (round-half-even, modelled exactly for integers); area: '
                               'triangle (quadrilateral thorough) decided by the solver, other structures must show no float32-typed operation; length: one '
                               'axis-parallel segment whose rounded extent is a power of two')
    res = pool(tasks)
    for t in tasks:
        r = res.get(t.name, {'status': 'error', 'detail': 'no result'})
        m = t.meta
        if m['kind'] in ('area32', 'length32'):
            if r['status'] == 'sat':
                try:
                    bad, wit = c14.replay_area_f32(m['rs'], r['model']) if m['kind'] == 'area32' else c14.replay_length_f32(r['model'])
                except Exception as e:  # noqa: BLE001
                    bad, wit = False, {'exception': repr(e)}
                if bad:
                    v = check.violation(f"C14:float32:{'area' if m['kind'] == 'area32' else 'length'}",
                                        f"float32 {wit['kind']} array: measure {wit['got']} but the exact value is {wit['expected']} ({str(wit.get('rings') or wit.get('coordinates'))[:200]})", wit)
                    check.record(t.name, dict(r, status='known-finding' if v == 'known' else 'violated'), 'kernel', m)
                else:
                    check.record(t.name, dict(r, status='inconclusive', detail=f'float32 counterexample did not reproduce: {str(wit)[:300]}'), 'kernel', m)
            else:
                check.record(t.name, dict(r, status='inconclusive' if r['status'] == 'unknown' else r['status']), 'kernel', m)
            continue
        if r['status'] == 'sat' and m['kind'] in ('area', 'length'):
            try:
                bad, wit = (c14.replay_area(m['rs'], r['model']) if m['kind'] == 'area' else c14.replay_length(m['ps'], r['model']))
            except Exception as e:  # noqa: BLE001
                bad, wit = False, {'exception': repr(e)}
            if bad:
                v = check.violation(f"C14:kernel:{m['kind']}", f"measure kernel disagrees with the exact measure: {str(wit)[:400]}", wit)
                check.record(t.name, dict(r, status='known-finding' if v == 'known' else 'violated'), 'kernel', m)
            else:
                check.record(t.name, dict(r, status='inconclusive', detail=f'counterexample did not reproduce: {str(wit)[:300]}'), 'kernel', m)
        elif r['status'] == 'sat':
            check.record(t.name, dict(r, status='inconclusive', detail='nested map driver disagrees with per-element kernel (no concrete replay built for this obligation); '
                                                                      'the wrapper obligations below decide'), 'kernel', m)
        else:
            check.record(t.name, r, 'kernel', m)
    derivs = ['identity', 'slice[1:]', 'slice[1:3]', 'take_fill[0,NA,2]', 'concat[2:]+[:2]'] + (['pickle(slice)[1:]', 'reverse[::-1]', 'slice[1:][1:]', 'take[2,0,-1]'] if thorough else [])
    wrappers.run_arrays(check, pool, Task, 'C14', ('length', 'area'), derivs=derivs, dtypes=('float64',))
    wrappers.run_arrays(check, pool, Task, 'C14', ('length', 'area'), derivs=['slice[1:]'], dtypes=('int32', 'int64', 'float32') if thorough else ('int32', 'float32'))
    wrappers.run_boundary(check, pool, Task, 'C14')

    from . import glue
    glue.run(check, pool, Task, ('line', 'multipolygon'))


def replay(path):
    import json
    print(json.dumps(json.load(open(path))['witness'], indent=1)[:3000])
    return 0
