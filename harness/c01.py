"""C01 - intersects_bounds is geometrically exact for every geometry type.

Lemmas (exact integer arithmetic, |v| <= 2^25) about single segments/edges, then whole-kernel queries in which
symbolic products are an uninterpreted function constrained by instances of the proved lemmas.
"""
import itertools
import time

import numpy as np
import z3

from pysym import values
from pysym.core import Interp
from pysym.values import Num, tz

from . import geom as G
from .framework import formula_size, model_ints, z3_check

B25 = 1 << 25
ALG = 'spatialpandas.geometry._algorithms.intersection'


def mk():
    it = Interp()
    return it


def ivars(names):
    return [z3.Int(n) for n in names]


def rng(vs, bnd):
    return [z3.And(v >= -bnd, v <= bnd) for v in vs]


def SI(it, P, Q, a, b):
    f = it.func(ALG, 'segments_intersect')
    return tz(it.call(f, [Num(P[0]), Num(P[1]), Num(Q[0]), Num(Q[1]), Num(a[0]), Num(a[1]), Num(b[0]), Num(b[1])]))


def box_edges(box):
    x0, y0, x1, y1 = box
    return [((x0, y1), (x1, y1)), ((x0, y0), (x1, y0)), ((x0, y0), (x0, y1)), ((x1, y0), (x1, y1))]


def LS(it, P, Q, box):
    return z3.Or(G.inr(P, box), G.inr(Q, box), *[SI(it, P, Q, a, b) for a, b in box_edges(box)]) == z3.Not(G.Dsep(P, Q, box))


def code_wn(it, q, verts, offsets):
    """run the real point_intersects_polygon and observe its local `winding_number`"""
    obs = {}
    it.observe['point_intersects_polygon'] = obs
    f = it.func(ALG, 'point_intersects_polygon')
    r = it.call(f, [Num(q[0]), Num(q[1]), G.num_pts(verts), np.array(offsets, dtype=np.uint32)])
    it.observe.pop('point_intersects_polygon', None)
    wn = obs.get('winding_number')
    if wn is None:
        return tz(r), None
    if isinstance(wn, Num):
        wn = wn.v
    if not z3.is_expr(wn):
        wn = z3.IntVal(int(wn))
    return tz(r), wn


EDGE_RULES = {'down': G.wn_down_edge, 'up': G.wn_up_edge}


# ------------------------------------------------------------------------------------------------ lemmas
def lemma(name, bnd=B25, seed=0, timeout=120):
    """prove one lemma in exact arithmetic; -> result dict"""
    values.set_mul_mode('exact')
    it = mk()
    P = tuple(ivars(['px', 'py']))
    Q = tuple(ivars(['qx', 'qy']))
    c = tuple(ivars(['cx', 'cy']))
    box = tuple(ivars(['x0', 'y0', 'x1', 'y1']))
    allv = [*P, *Q, *c, *box]
    s = z3.Solver()
    s.add(*rng(allv, bnd))
    s.add(box[0] < box[2], box[1] < box[3])
    if name == 'LS':
        s.add(z3.Not(LS(it, P, Q, box)))
    elif name == 'L2':
        s.add(z3.Not(G.L2(P, Q, box)))
    elif name == 'LB':
        s.add(z3.Not(G.LB(c, P, Q, box)))
    elif name == 'E34':
        s.add(z3.Not(G.E34(P, Q, c)))
    elif name == 'E2':
        s.add(z3.Not(G.E2(P, Q, c)))
    elif name in ('E1down', 'E1up'):
        _, wn = code_wn(it, c, [P, Q], [0, 4])
        if wn is None:
            return {'status': 'unsupported', 'detail': 'local winding_number not found in point_intersects_polygon'}
        s.add(z3.Not(G.on_seg(c, P, Q)), wn != EDGE_RULES[name[2:]](P, Q, c))
    elif name == 'P1':
        f = it.func(ALG, 'segment_intersects_point')
        r = tz(it.call(f, [Num(P[0]), Num(P[1]), Num(Q[0]), Num(Q[1]), Num(c[0]), Num(c[1])]))
        s.add(r != G.on_seg(c, P, Q))
    elif name == 'S0':
        # segments_intersect == separating-axis oracle for two proper segments
        A0, A1, B0, B1 = P, Q, c, (box[0], box[1])
        s2 = z3.Solver()
        s2.add(*rng([*A0, *A1, *B0, *B1], bnd))
        ca = [G.cr(A0, A1, B0), G.cr(A0, A1, B1)]
        cb = [G.cr(B0, B1, A0), G.cr(B0, B1, A1)]
        sep = z3.Or(G.zmax(A0[0], A1[0]) < G.zmin(B0[0], B1[0]), G.zmin(A0[0], A1[0]) > G.zmax(B0[0], B1[0]),
                    G.zmax(A0[1], A1[1]) < G.zmin(B0[1], B1[1]), G.zmin(A0[1], A1[1]) > G.zmax(B0[1], B1[1]),
                    z3.And(ca[0] > 0, ca[1] > 0), z3.And(ca[0] < 0, ca[1] < 0),
                    z3.And(cb[0] > 0, cb[1] > 0), z3.And(cb[0] < 0, cb[1] < 0))
        s2.add(z3.Or(A0[0] != A1[0], A0[1] != A1[1]), z3.Or(B0[0] != B1[0], B0[1] != B1[1]))
        s2.add(SI(it, A0, A1, B0, B1) != z3.Not(sep))
        s = s2
    else:
        return {'status': 'error', 'detail': 'unknown lemma ' + name}
    st, m, dt = z3_check(s, timeout, seed)
    out = {'status': st, 'solver_s': round(dt, 3), 'formula_size': formula_size(s), 'encoded': it.encoded}
    if m is not None:
        out['model'] = model_ints(m, allv)
    return out


LEMMAS_BOX = ['LS', 'L2', 'LB']
LEMMAS_EDGE = ['E1down', 'E1up', 'E2', 'E34']


# ------------------------------------------------------------------------------------------------ kernels
def sym_box():
    bx = ivars(['bx0', 'by0', 'bx1', 'by1'])
    box = (G.zmin(bx[0], bx[2]), G.zmin(bx[1], bx[3]), G.zmax(bx[0], bx[2]), G.zmax(bx[1], bx[3]))
    return bx, box


def seg_instances(it, s, P, Q, box, proved):
    if 'LS' in proved:
        s.add(LS(it, P, Q, box))
    if 'L2' in proved:
        s.add(G.L2(P, Q, box))


def corner_instances(it, s, P, Q, c, box, proved, rule):
    if 'LB' in proved:
        s.add(G.LB(c, P, Q, box))
    if rule is not None:
        _, wn_e = code_wn(it, c, [P, Q], [0, 4])
        s.add(z3.Implies(z3.Not(G.on_seg(c, P, Q)), wn_e == EDGE_RULES[rule](P, Q, c)))
    if 'E2' in proved:
        s.add(G.E2(P, Q, c))
    if 'E34' in proved:
        s.add(G.E34(P, Q, c))


def pick_rule(proved):
    return 'down' if 'E1down' in proved else ('up' if 'E1up' in proved else None)


def finish_query(s, impl, spec, allv, it, timeout, seed, t0, extra=None):
    """vacuity twins, then impl != spec"""
    vac = []
    nq = 0
    for nm, ex in (('impl-true', impl), ('impl-false', z3.Not(impl))):
        s.push()
        s.add(ex)
        st, _, _ = z3_check(s, min(timeout, 60), seed)
        nq += 1
        s.pop()
        if st != 'sat':
            vac.append(f"{nm}:{st}")
    s.add(impl != spec)
    st, m, dt = z3_check(s, timeout, seed)
    out = {'status': st, 'solver_s': round(dt, 3), 'formula_size': formula_size(s), 'encoded': it.encoded,
           'queries': nq + 1, 'symex_s': round(time.time() - t0 - dt, 2)}
    if vac:
        out['status'] = 'error'
        out['detail'] = 'vacuity twin failed: ' + ','.join(vac)
    if m is not None:
        out['model'] = model_ints(m, allv)
        out['impl_in_model'] = z3.is_true(m.eval(impl, model_completion=True))
    if extra:
        out.update(extra)
    return out


def q_multipoint(k, timeout=120, seed=0, bnd=B25):
    """multipoints_intersect_bounds, one multipoint of k points, any box incl. degenerate and reversed; linear"""
    values.set_mul_mode('exact')
    t0 = time.time()
    it = mk()
    vs = [(z3.Int(f'x{i}'), z3.Int(f'y{i}')) for i in range(k)]
    bx, box = sym_box()
    result = it.np.zeros(1, dtype=np.bool_)
    f = it.func(ALG, 'multipoints_intersect_bounds')
    it.call(f, [Num(bx[0]), Num(bx[1]), Num(bx[2]), Num(bx[3]), G.num_pts(vs),
                np.array([0], dtype=np.uint32), np.array([2 * k], dtype=np.uint32), result])
    impl = tz(result[0])
    spec = z3.Or(*[G.inr(v, box) for v in vs]) if k else z3.BoolVal(False)
    allv = [t for v in vs for t in v] + bx
    s = z3.Solver()
    s.add(*rng(allv, bnd))
    if k == 0:
        s.add(impl != spec)
        st, m, dt = z3_check(s, timeout, seed)
        return {'status': st, 'solver_s': dt, 'formula_size': formula_size(s), 'encoded': it.encoded}
    return finish_query(s, impl, spec, allv, it, timeout, seed, t0)


def line_spec(parts, box):
    terms = []
    for vs in parts:
        if len(vs) == 1:
            terms.append(G.inr(vs[0], box))
        for i in range(len(vs) - 1):
            terms.append(z3.Not(G.Dsep(vs[i], vs[i + 1], box)))
    return z3.Or(*terms) if terms else z3.BoolVal(False)


def q_line(part_sizes, proved, mode='uf', timeout=300, seed=0, bnd=B25):
    """lines_intersect_bounds (one part) / multilines_intersect_bounds (several parts) == oracle"""
    values.set_mul_mode(mode)
    t0 = time.time()
    it = mk()
    parts = [[(z3.Int(f'p{pi}x{i}'), z3.Int(f'p{pi}y{i}')) for i in range(k)] for pi, k in enumerate(part_sizes)]
    flat_vs = [v for p in parts for v in p]
    bx, box = sym_box()
    result = it.np.zeros(1, dtype=np.bool_)
    offs = [0]
    for p in parts:
        offs.append(offs[-1] + 2 * len(p))
    bxn = [Num(b) for b in bx]
    if len(parts) == 1:
        f = it.func(ALG, 'lines_intersect_bounds')
        it.call(f, [*bxn, G.num_pts(flat_vs), np.array([0], dtype=np.uint32), np.array([offs[-1]], dtype=np.uint32), result])
    else:
        f = it.func(ALG, 'multilines_intersect_bounds')
        it.call(f, [*bxn, G.num_pts(flat_vs), np.array([0], dtype=np.uint32), np.array([len(parts)], dtype=np.uint32),
                    np.array(offs, dtype=np.uint32), result])
    impl = tz(result[0])
    spec = line_spec(parts, box)
    allv = [t for v in flat_vs for t in v] + bx
    s = z3.Solver()
    s.add(*rng(allv, bnd))
    s.add(bx[0] != bx[2], bx[1] != bx[3])
    if mode == 'uf':
        for p in parts:
            for i in range(len(p) - 1):
                seg_instances(it, s, p[i], p[i + 1], box, proved)
    return finish_query(s, impl, spec, allv, it, timeout, seed, t0)


def poly_spec(polys, box):
    """polys: list of polygons, each a list of closed rings"""
    terms = []
    for rings in polys:
        for r in rings:
            if len(r) == 1:
                terms.append(G.inr(r[0], box))
            for i in range(len(r) - 1):
                terms.append(z3.Not(G.Dsep(r[i], r[i + 1], box)))
        for c in G.corners(box):
            terms.append(G.wn_up(rings, c) != 0)
    return z3.Or(*terms) if terms else z3.BoolVal(False)


def build_polys(shape):
    """shape: list of polygons, each a list of ring sizes (distinct vertices; rings are closed by repetition)"""
    polys = []
    for pi, ring_sizes in enumerate(shape):
        rings = []
        for ri, m in enumerate(ring_sizes):
            vs = [(z3.Int(f'g{pi}r{ri}x{i}'), z3.Int(f'g{pi}r{ri}y{i}')) for i in range(m)]
            rings.append(vs + [vs[0]] if m else [])
        polys.append(rings)
    return polys


def hole_in_shell_bbox(rings):
    cons = []
    sh = rings[0][:-1]
    for hole in rings[1:]:
        for v in hole[:-1]:
            cons += [z3.Or(*[u[0] <= v[0] for u in sh]), z3.Or(*[u[0] >= v[0] for u in sh]),
                     z3.Or(*[u[1] <= v[1] for u in sh]), z3.Or(*[u[1] >= v[1] for u in sh])]
    return cons


def q_polygon(shape, proved, mode='uf', timeout=600, seed=0, bnd=B25):
    """polygons_intersect_bounds (one polygon) / multipolygons_intersect_bounds (several) == oracle"""
    values.set_mul_mode(mode)
    t0 = time.time()
    it = mk()
    polys = build_polys(shape)
    flat_vs = [v for rings in polys for r in rings for v in r]
    ring_offs = [0]
    poly_offs = [0]
    for rings in polys:
        for r in rings:
            ring_offs.append(ring_offs[-1] + 2 * len(r))
        poly_offs.append(poly_offs[-1] + len(rings))
    bx, box = sym_box()
    bxn = [Num(b) for b in bx]
    result = it.np.zeros(1, dtype=np.bool_)
    if len(polys) == 1:
        f = it.func(ALG, 'polygons_intersect_bounds')
        it.call(f, [*bxn, G.num_pts(flat_vs), np.array([0], dtype=np.uint32), np.array([len(polys[0])], dtype=np.uint32),
                    np.array(ring_offs, dtype=np.uint32), result])
    else:
        f = it.func(ALG, 'multipolygons_intersect_bounds')
        it.call(f, [*bxn, G.num_pts(flat_vs), np.array([0], dtype=np.uint32), np.array([len(polys)], dtype=np.uint32),
                    np.array(poly_offs, dtype=np.uint32), np.array(ring_offs, dtype=np.uint32), result])
    impl = tz(result[0])
    spec = poly_spec(polys, box)
    allv = list({str(t): t for v in flat_vs for t in v}.values()) + bx
    s = z3.Solver()
    s.add(*rng(allv, bnd))
    s.add(bx[0] != bx[2], bx[1] != bx[3])
    for rings in polys:
        s.add(*hole_in_shell_bbox(rings))
    if mode == 'uf':
        rule = pick_rule(proved)
        for rings in polys:
            for r in rings:
                for i in range(len(r) - 1):
                    seg_instances(it, s, r[i], r[i + 1], box, proved)
                    for c in G.corners(box):
                        corner_instances(it, s, r[i], r[i + 1], c, box, proved, rule)
    return finish_query(s, impl, spec, allv, it, timeout, seed, t0)


# ------------------------------------------------------------------------------------------------ replay
def model_pts(model, prefix, k):
    return [(model[f'{prefix}x{i}'], model[f'{prefix}y{i}']) for i in range(k)]


def model_box(model):
    return tuple(model[n] for n in ('bx0', 'by0', 'bx1', 'by1'))


def replay_line(part_sizes, model, dtype='float64'):
    """real LineArray/MultiLineArray (scalar + array + inds forms) versus the exact oracle"""
    import spatialpandas.geometry as sg
    parts = [model_pts(model, f'p{pi}', k) for pi, k in enumerate(part_sizes)]
    box = model_box(model)
    flat = [[c for v in p for c in v] for p in parts]
    if len(parts) == 1:
        arr = sg.LineArray([flat[0]], dtype=dtype)
    else:
        arr = sg.MultiLineArray([flat], dtype=dtype)
    got = {'array': bool(arr.intersects_bounds(box)[0]), 'inds': bool(arr.intersects_bounds(box, inds=np.array([0]))[0]),
           'scalar': bool(arr[0].intersects_bounds(box))}
    want = any(G.line_box_x(p, box) for p in parts)
    in_domain = box[0] != box[2] and box[1] != box[3]
    return got, want, in_domain, {'parts': parts, 'box': box, 'dtype': dtype, 'kind': 'line' if len(parts) == 1 else 'multiline'}


def replay_multipoint(k, model, dtype='float64'):
    import spatialpandas.geometry as sg
    pts = model_pts(model, '', k)
    box = model_box(model)
    arr = sg.MultiPointArray([[c for v in pts for c in v]], dtype=dtype)
    got = {'array': bool(arr.intersects_bounds(box)[0]), 'inds': bool(arr.intersects_bounds(box, inds=np.array([0]))[0]),
           'scalar': bool(arr[0].intersects_bounds(box))}
    nb = G.norm_box(box)
    want = any(nb[0] <= x <= nb[2] and nb[1] <= y <= nb[3] for x, y in pts)
    return got, want, True, {'points': pts, 'box': box, 'dtype': dtype, 'kind': 'multipoint'}


def replay_polygon(shape, model, dtype='float64'):
    import spatialpandas.geometry as sg
    polys = []
    for pi, ring_sizes in enumerate(shape):
        rings = []
        for ri, m in enumerate(ring_sizes):
            vs = model_pts(model, f'g{pi}r{ri}', m)
            rings.append(vs + [vs[0]] if m else [])
        polys.append(rings)
    box = model_box(model)
    flat = [[[c for v in r for c in v] for r in rings] for rings in polys]
    if len(polys) == 1:
        arr = sg.PolygonArray([flat[0]], dtype=dtype)
    else:
        arr = sg.MultiPolygonArray([flat], dtype=dtype)
    got = {'array': bool(arr.intersects_bounds(box)[0]), 'inds': bool(arr.intersects_bounds(box, inds=np.array([0]))[0]),
           'scalar': bool(arr[0].intersects_bounds(box))}
    res = [G.polygon_box_x(rings, box) for rings in polys]
    want = any(a for a, _ in res)
    unamb = all(u for _, u in res)
    in_domain = box[0] != box[2] and box[1] != box[3] and unamb
    return got, want, in_domain, {'polygons': polys, 'box': box, 'dtype': dtype,
                                  'kind': 'polygon' if len(polys) == 1 else 'multipolygon'}


def judge(check, name, replay, key_prefix):
    """-> 'violation' | 'known' | 'spurious' | 'out-of-domain'"""
    got, want, in_domain, wit = replay
    bad = {k: v for k, v in got.items() if v != want}
    if not bad:
        return 'spurious'
    if not in_domain:
        return 'out-of-domain'
    wit.update({'got': got, 'expected': want, 'obligation': name})
    r = check.violation(f"{key_prefix}:{wit['kind']}", f"intersects_bounds={got} but exact oracle says {want} ({name})", wit)
    return 'known' if r == 'known' else 'violation'


def lemma_phase(check, pool, Task, names, seeds=2):
    """prove the named lemmas (portfolio of seeds); -> (proved set, names of needed lemmas that failed)"""
    tasks = [Task(f'lemma:{n}#{s}', lemma, (n,), {'seed': s + check.seed, 'timeout': 240}, timeout=300, group='lemma:' + n)
             for n in names for s in range(seeds)]
    res = pool(tasks)
    proved = set()
    for n in names:
        r = res.get('lemma:' + n, {'status': 'error', 'detail': 'no result'})
        if r['status'] == 'unsat':
            proved.add(n)
        if n in ('E1down', 'E1up'):
            continue
        if r['status'] == 'sat':
            # a refuted lemma is not a violation: the decomposition may have changed; dependent queries go on
            # without it and the exact witness search decides
            check.record('lemma:' + n, dict(r, status='unsat-not-established', detail=f"lemma refuted, model {r.get('model')}"), 'lemma')
            check.log(f"lemma {n} REFUTED (model {r.get('model')}); kernel queries run without it")
        else:
            check.record('lemma:' + n, r, 'lemma')
    if 'E1down' in names:
        e1 = [res.get('lemma:E1down', {}), res.get('lemma:E1up', {})]
        nm = 'lemma:E1 (per-edge contribution == half-open rule, either convention)'
        if any(r.get('status') == 'unsat' for r in e1):
            check.record(nm, [r for r in e1 if r.get('status') == 'unsat'][0], 'lemma')
        else:
            check.record(nm, {'status': 'unsat-not-established', 'detail': f"both conventions failed: {[r.get('status') for r in e1]}",
                              'solver_s': sum(r.get('solver_s') or 0 for r in e1)}, 'lemma')
    failed = [n for n in names if n not in proved and n not in ('E1down', 'E1up', 'S0')]
    if 'E1down' in names and not pick_rule(proved):
        failed.append('E1')
    check.extra['lemmas_proved'] = sorted(proved)
    return proved, failed


# ------------------------------------------------------------------------------------------------ driver
QUICK = {
    'multipoint': [0, 1, 2, 4],
    'line': [[1], [2], [3], [4], [2, 2], [1, 3]],
    'line_exact': [[2]],
    'polygon': [[[1]], [[2]], [[3]], [[4]]],
}
THOROUGH = {
    'multipoint': [0, 1, 2, 4, 6],
    'line': [[1], [2], [3], [4], [6], [8], [10], [12], [2, 2], [1, 3], [3, 3], [2, 2, 2], [4, 4]],
    'line_exact': [[2], [3]],
    'polygon': [[[1]], [[2]], [[3]], [[4]], [[5]], [[3, 3]], [[4, 3]], [[3], [3]], [[6]], [[7]], [[4, 4]], [[3, 3, 3]], [[4], [3]], [[3, 3], [3]]],
}


def run_kernels(check, pool, Task):
    tier = check.tier
    plan = THOROUGH if tier == 'thorough' else QUICK
    seeds = 4 if tier == 'thorough' else 3
    cap = 1500 if tier == 'thorough' else 400
    check.bounds.update({'coordinates': '|v| <= 2^25 (integers; dyadic rationals reduce to integers by homogeneity)',
                         'kernel_structures': plan})
    check.assumptions += [
        'box of positive width and height for line/polygon kinds (degenerate boxes included for multipoints)',
        'rings closed (first vertex repeated as last)',
        "every hole's vertices inside the shell's bounding box (consequence of validity)",
        'symbolic x symbolic products are an uninterpreted function constrained only by instances of lemmas proved in this run',
        'prange executed sequentially',
    ]
    proved, failed_lemmas = lemma_phase(check, pool, Task, ['LS', 'L2', 'LB', 'E1down', 'E1up', 'E2', 'E34', 'S0'], seeds)
    # ---- phase B: kernel queries
    tasks = []
    for k in plan['multipoint']:
        tasks.append(Task(f'kernel:multipoint k={k}', q_multipoint, (k,), {'timeout': cap, 'seed': check.seed}, timeout=cap + 60,
                          meta={'kind': 'multipoint', 'k': k}))
    for ps in plan['line']:
        tasks.append(Task(f'kernel:line parts={ps} (UF+lemmas)', q_line, (ps, proved), {'timeout': cap, 'seed': check.seed},
                          timeout=cap + 60, meta={'kind': 'line', 'parts': ps}))
    for ps in plan['line_exact']:
        tasks.append(Task(f'kernel:line parts={ps} (exact, monolithic)', q_line, (ps, proved),
                          {'mode': 'exact', 'timeout': cap, 'seed': check.seed}, timeout=cap + 60, meta={'kind': 'line', 'parts': ps, 'exact': True}))
    for sh in plan['polygon']:
        tasks.append(Task(f'kernel:polygon rings={sh} (UF+lemmas)', q_polygon, (sh, proved), {'timeout': cap, 'seed': check.seed},
                          timeout=cap + 60, meta={'kind': 'polygon', 'shape': sh}))
    # float32 coordinate buffers: float32-typed differences are rounded (values.F32); small structures go to the solver, the
    # others must show no float32-typed arithmetic at all (then they are the float64 obligations above)
    f32plan = [('line', [2], True), ('line', [3], False), ('line', [2, 2], False), ('polygon', [[3]], False), ('polygon', [[3, 3]], False), ('polygon', [[3], [3]], False)]
    if tier == 'thorough':
        # (a monolithic exact query of a polygon is not decided within the cap even without rounding: only lines are solved outright)
        f32plan += [('line', [3], True), ('line', [4], False), ('line', [2, 2, 2], False), ('polygon', [[4, 3]], False), ('polygon', [[3, 3], [3]], False)]
    for kind, st, solve in f32plan:
        tasks.append(Task(f"kernel:float32 buffer, {kind} {st} ({'exact, monolithic' if solve else 'float32-typed operations'})", q_f32, (kind, st),
                          {'timeout': min(cap, 600), 'seed': check.seed, 'solve': solve}, timeout=min(cap, 600) + 60,
                          meta={'kind': 'line' if kind == 'line' else 'polygon', 'parts': st, 'shape': st, 'f32': True, 'noretry': True}))
    check.bounds['float32'] = ('integer coordinates |c| <= 2^24 (exactly representable in float32), box float64; sums/differences of two float32 values rounded to '
                               'float32 (round-half-even); a float32 x float32 product would be reported as unsupported, none occurs in these kernels')
    tasks.sort(key=lambda t: -sum(map(lambda x: sum(x) if isinstance(x, list) else x, t.meta.get('shape', []) or [0])))
    res = pool(tasks)
    need_search = set()
    for t in tasks:
        r = res.get(t.name, {'status': 'error', 'detail': 'no result'})
        meta = t.meta
        if meta.get('f32'):
            if r['status'] == 'sat':
                verdict = replay_model(check, t.name, meta, r['model'], dtypes=('float32',), key_prefix='C01:float32')
                st_ = {'violation': 'violated', 'known': 'known-finding'}.get(verdict)
                if st_:
                    check.record(t.name, dict(r, status=st_), 'kernel', meta)
                else:
                    check.record(t.name, dict(r, status='inconclusive', detail=f'float32 counterexample did not reproduce on the real code ({verdict}): {r.get("model")}'), 'kernel', meta)
            elif r['status'] == 'unsat' and not r.get('reduced') and (r.get('f32_typed_operations') or 0) > 0:
                check.record(t.name, r, 'kernel', meta)
            elif r['status'] == 'unsat':
                check.record(t.name, r, 'kernel', meta)
            else:
                check.record(t.name, dict(r, status='inconclusive' if r['status'] == 'unknown' else r['status']), 'kernel', meta)
            continue
        if r['status'] == 'sat':
            verdict = replay_model(check, t.name, meta, r['model'])
            if verdict in ('violation', 'known'):
                check.record(t.name, dict(r, status='violated' if verdict == 'violation' else 'known-finding'), 'kernel', meta)
                continue
            # spurious UF model or out-of-domain witness: exact search decides
            need_search.add(meta['kind'])
            check.record(t.name, dict(r, status='candidate-' + verdict, detail=f"solver candidate did not reproduce ({verdict})"), 'kernel', meta)
            check.log(f"{t.name}: candidate {verdict}; falling back to exact witness search")
        else:
            if r['status'] != 'unsat':
                need_search.add(meta['kind'])
            check.record(t.name, r, 'kernel', meta)
    if failed_lemmas:
        need_search |= {'line', 'polygon'}
    # ---- phase C: exact witness search where the compositional scheme was not conclusive
    if need_search:
        found = witness_search(check, pool, Task, need_search)
        pending = [o for o in check.obligations if str(o['status']).startswith(('candidate-', 'unsat-not-established'))]
        for o in pending:
            if not found:
                check.inconc(f"{o['name']}: {o['status']} and the exact witness search found no reproducible counterexample")


def replay_model(check, name, meta, model, dtypes=('float64',), key_prefix='C01'):
    verdicts = []
    for dt in dtypes:
        try:
            if meta['kind'] == 'multipoint':
                rp = replay_multipoint(meta['k'], model, dt)
            elif meta['kind'] == 'line':
                rp = replay_line(meta['parts'], model, dt)
            else:
                rp = replay_polygon(meta['shape'], model, dt)
        except Exception as e:  # noqa: BLE001
            check.harness_error(f"replay of {name} failed: {type(e).__name__}: {e}")
            return 'spurious'
        verdicts.append(judge(check, name, rp, key_prefix))
    for v in ('violation', 'known', 'out-of-domain'):
        if v in verdicts:
            return v
    return 'spurious'


def witness_search(check, pool, Task, kinds):
    """exact-arithmetic queries (no UF, no lemma) on the smallest structures; sat answers are fast"""
    tasks = []
    if 'line' in kinds:
        for ps in ([2], [3], [2, 2]):
            for s in range(2):
                tasks.append(Task(f'search:line parts={ps}#{s}', q_line, (ps, set()), {'mode': 'exact', 'timeout': 150, 'seed': s},
                                  timeout=200, group=f'search:line parts={ps}', meta={'kind': 'line', 'parts': ps, 'noretry': True}))
    if 'polygon' in kinds:
        for sh in ([[3]], [[4]], [[3, 3]], [[3], [3]]):
            for s in range(2):
                tasks.append(Task(f'search:polygon rings={sh}#{s}', q_polygon, (sh, set()), {'mode': 'exact', 'timeout': 150, 'seed': s},
                                  timeout=200, group=f'search:polygon rings={sh}', meta={'kind': 'polygon', 'shape': sh, 'noretry': True}))
    if 'multipoint' in kinds:
        tasks.append(Task('search:multipoint k=2', q_multipoint, (2,), {'timeout': 100}, timeout=150, meta={'kind': 'multipoint', 'k': 2}))
    res = pool(tasks)
    found = False
    seen = set()
    for t in tasks:
        if t.group in seen:
            continue
        seen.add(t.group)
        r = res.get(t.group)
        if r is None:
            continue
        if r['status'] == 'sat':
            v = replay_model(check, t.group, t.meta, r['model'])
            check.record(t.group, dict(r, status={'violation': 'violated', 'known': 'known-finding'}.get(v, 'candidate-' + v)), 'search', t.meta)
            found = found or v in ('violation', 'known')
        else:
            # a time-out here is expected on a correct tree (the monolithic query is hard) and decides nothing
            check.record(t.group, dict(r, status='search-' + str(r['status'])), 'search', t.meta)
    return found


# ------------------------------------------------------------------------------------------------ float32 coordinate subtype
B24 = 1 << 24


def q_f32(kind, struct, timeout=300, seed=0, bnd=B24, solve=True):
    """box kernels on a float32 coordinate buffer (values.F32 mode).  numba types float32 (op) float32 as float32, so a
    difference of two buffer values beyond 2^24 is rounded (round-half-even, modelled exactly for integers up to 2^25);
    everything that involves the float64 box is float64.  Integer coordinates |c| <= bnd, all exactly representable in
    float32; exact multiplication (no uninterpreted products).  When the symbolic run performs no float32-typed
    arithmetic at all, the encoding is the float64 one and the float64 obligation of the same structure decides it
    (`reduced`); otherwise the solver looks for a box on which the rounded computation and the exact oracle differ."""
    values.set_mul_mode('exact')
    values.F32['on'] = True
    values.F32['rounded'] = 0
    t0 = time.time()

    def mark(vs):
        flat = np.empty(2 * len(vs), dtype=object)
        for i, v in enumerate(vs):
            flat[2 * i], flat[2 * i + 1] = Num(v[0], False, 0, True), Num(v[1], False, 0, True)
        return flat
    try:
        it = mk()
        bx, box = sym_box()
        bxn = [Num(b) for b in bx]
        result = it.np.zeros(1, dtype=np.bool_)
        cons = []
        if kind == 'line':
            parts = [[(z3.Int(f'p{pi}x{i}'), z3.Int(f'p{pi}y{i}')) for i in range(k)] for pi, k in enumerate(struct)]
            flat_vs = [v for p in parts for v in p]
            offs = [0]
            for p in parts:
                offs.append(offs[-1] + 2 * len(p))
            if len(parts) == 1:
                it.call(it.func(ALG, 'lines_intersect_bounds'), [*bxn, mark(flat_vs), np.array([0], dtype=np.uint32), np.array([offs[-1]], dtype=np.uint32), result])
            else:
                it.call(it.func(ALG, 'multilines_intersect_bounds'), [*bxn, mark(flat_vs), np.array([0], dtype=np.uint32), np.array([len(parts)], dtype=np.uint32),
                                                                      np.array(offs, dtype=np.uint32), result])
            spec = line_spec(parts, box)
            allv = [t for v in flat_vs for t in v] + bx
        else:
            polys = build_polys(struct)
            flat_vs = [v for rings in polys for r in rings for v in r]
            roffs = [0]
            for rings in polys:
                for r in rings:
                    roffs.append(roffs[-1] + 2 * len(r))
            if len(polys) == 1:
                it.call(it.func(ALG, 'polygons_intersect_bounds'), [*bxn, mark(flat_vs), np.array([0], dtype=np.uint32), np.array([len(polys[0])], dtype=np.uint32),
                                                                    np.array(roffs, dtype=np.uint32), result])
            else:
                poffs = [0]
                for rings in polys:
                    poffs.append(poffs[-1] + len(rings))
                it.call(it.func(ALG, 'multipolygons_intersect_bounds'), [*bxn, mark(flat_vs), np.array([0], dtype=np.uint32), np.array([len(polys)], dtype=np.uint32),
                                                                         np.array(poffs, dtype=np.uint32), np.array(roffs, dtype=np.uint32), result])
            spec = poly_spec(polys, box)
            allv = list({str(t): t for v in flat_vs for t in v}.values()) + bx
            for rings in polys:
                cons += hole_in_shell_bbox(rings)
    finally:
        values.F32['on'] = False
    rounded = values.F32['rounded']
    impl = tz(result[0])
    extra = {'f32_typed_operations': rounded, 'bound': bnd}
    if rounded == 0 and not solve:
        return {'status': 'unsat', 'reduced': True, 'solver_s': 0.0, 'queries': 0, 'formula_size': 1, 'encoded': it.encoded, 'symex_s': round(time.time() - t0, 2),
                'detail': 'no float32-typed arithmetic in the symbolic run: the encoding is the float64 one, decided by the float64 obligation of this structure', **extra}
    s = z3.Solver()
    s.add(*rng(allv, bnd))
    s.add(bx[0] != bx[2], bx[1] != bx[3])
    s.add(*cons)
    return finish_query(s, impl, spec, allv, it, timeout, seed, t0, extra=extra)
