"""C05 driver (partial claim: the candidate loop of _sjoin_pandas_pandas and the argument validation of sjoin)."""
import itertools

from . import c05


def run(check, pool, Task):
    from . import validate
    validate.apply(check, ['rtree'])
    thorough = check.tier == 'thorough'
    cap = 1800 if thorough else 600
    check.bounds.update({'frames': 'left x right rows <= 3x2 (3x3 thorough), incl. empty frames, rows with NaN bounds on either side, every candidate order for <= 2 left rows',
                         'outside': 'the three pandas merge chains (inner/left/right), suffix handling, index restoration and _record_reset_index: pandas internals, '
                                    'no symbolic encoding within reach; the property is claimed at this partial strength only'})
    check.stubs += ['left_df.geometry.sindex.intersects(b): exactly the rows whose non-NaN bounds overlap b, in an arbitrary order (contract proved under C03)',
                    'left_geom.intersects(shape, inds) -> uninterpreted Bool J[l,r] with J => bounds overlap (C02/C13)', 'right_geom[i] -> opaque shape, or None for a missing element (then left_geom.intersects raises as the real one does)', 'sindex.intersects with a NaN query box -> arbitrary subset of the rows (outside the C03 contract)',
                    'pd.DataFrame({...}) -> records the key table']
    fam = [(0, 2, []), (2, 0, [0, 1]), (1, 1, [0]), (2, 1, [0, 1]), (2, 1, [1, 0]), (2, 2, [0, 1]), (2, 2, [1, 0]), (3, 2, [2, 0, 1]), (1, 3, [0])]
    if thorough:
        fam += [(3, 3, [0, 1, 2]), (3, 2, [0, 1, 2]), (4, 1, [3, 1, 0, 2])]
    tasks = [Task(f'sjoin candidate loop: left rows={nl} right rows={nr} candidate order={od}', c05.explore, (nl, nr), {'order': od, 'timeout': cap - 30}, timeout=cap,
                  meta={'nl': nl, 'nr': nr}) for nl, nr, od in fam]
    res = pool(tasks)
    for t in tasks:
        r = res.get(t.name, {'status': 'error', 'detail': 'no result'})
        m = t.meta
        if r['status'] == 'violated':
            bad, wit = c05.replay(m['nl'], m['nr'], r['model'], r.get('rect', False))
            if bad:
                key = f"C05:pairs:{wit.get('right_kind')}"
                if str(wit.get('got')).startswith('raises') and any(s_ is None for s_ in wit.get('right_shapes', [])):
                    key = 'C05:raises:missing-right-geometry'
                v = check.violation(key, f"sjoin(inner) of left points {wit.get('left_points')} and right shapes {wit.get('right_shapes')}: {wit.get('got')} "
                                         f"but exactly the pairs {wit.get('expected')} intersect", wit)
                check.record(t.name, dict(r, status='known-finding' if v == 'known' else 'violated'), 'paths', m)
            else:
                check.record(t.name, dict(r, status='inconclusive', detail=f'symbolic counterexample not reproduced through the public API: {str(wit)[:300]}'), 'paths', m)
        else:
            check.record(t.name, r, 'paths', m)


def replay(path):
    import json
    print(json.dumps(json.load(open(path))['witness'], indent=1)[:3000])
    return 0
