"""GeoSeries / GeoDataFrame glue: the thin methods that hand the array-level quantities to pandas.

Each method is interpreted on a stand-in `self` (its `.array` is a real tagged geometry array, `.index` an opaque
token) with `pd` replaced by a recorder; the obligation is that the pandas object is built from exactly the
array-level quantity (compared symbolically for all coordinate values), with the series' own index and, for
bounds, the columns x0, y0, x1, y1 in this order; cx hands the active geometry array and the parent to the
coordinate indexer.  What pandas does with these arguments is outside.
"""
import time

import numpy as np
import z3

from pysym import values
from pysym.core import Interp, Stub
from pysym.values import Num

from . import c14
from . import tagged as T
from .framework import model_ints, z3_check
from .wrappers import BASE, as_bool_term, num_differs

GS = 'spatialpandas.geoseries'
GD = 'spatialpandas.geodataframe'


class Rec:
    _pysym_model = True

    def __init__(self):
        self.calls = []

    def DataFrame(self, data=None, columns=None, index=None, **kw):
        self.calls.append(('DataFrame', data, {'columns': columns, 'index': index, **kw}))
        return ('DataFrame', data, columns, index)

    def Series(self, data=None, index=None, **kw):
        self.calls.append(('Series', data, {'index': index, **kw}))
        return ('Series', data, index)


class FakeSeries:
    _pysym_model = True

    def __init__(self, array, index='THE-INDEX'):
        self.array, self.index = array, index


def geoseries_task(kind='polygon', timeout=120, seed=0):
    t0 = time.time()
    values.set_mul_mode('uf')
    ts = T.TagSpace(sort='int')
    arr, _ = T.build_array(ts, kind, BASE[kind])
    it = ts.install(Interp())
    it.stubs['sqrt'] = Stub(c14.sqrt_stub, 'math.sqrt -> sqrt_uf')
    rec = Rec()
    it.stubs['pd'] = rec
    selfobj = FakeSeries(arr)
    box = tuple(Num(z3.Int(nm)) for nm in ('bx0', 'by0', 'bx1', 'by1'))
    problems, checks = [], []

    def meth(name):
        return it.func(GS, 'GeoSeries.' + name)

    def arr_q(name, *a, **k):
        v = it.getattr_(arr, name, None, True)
        return it.call(v, list(a), k) if (a or k or name in ('intersects_bounds', 'hilbert_distance')) else v

    def differs(a, b, boolean=False):
        a, b = np.asarray(a, dtype=object), np.asarray(b, dtype=object)
        if a.shape != b.shape:
            return z3.BoolVal(True)
        if boolean:
            return z3.Or(*[as_bool_term(x) != as_bool_term(y) for x, y in zip(a.ravel(), b.ravel())]) if a.size else z3.BoolVal(False)
        return z3.Or(*[num_differs(x, y) for x, y in zip(a.ravel(), b.ravel())]) if a.size else z3.BoolVal(False)
    # bounds
    r = it.call(meth('bounds'), [selfobj])
    if not (isinstance(r, tuple) and r[0] == 'DataFrame' and list(r[2] or []) == ['x0', 'y0', 'x1', 'y1'] and r[3] == 'THE-INDEX'):
        problems.append(f'bounds: built {str(r)[:120]}')
    else:
        checks.append(('GeoSeries.bounds data', differs(r[1], arr_q('bounds'))))
    # total_bounds
    r = it.call(meth('total_bounds'), [selfobj])
    checks.append(('GeoSeries.total_bounds', differs(list(r), list(arr_q('total_bounds')))))
    for q in ('area', 'length'):
        r = it.call(meth(q), [selfobj])
        if not (isinstance(r, tuple) and r[0] == 'Series' and r[2] == 'THE-INDEX'):
            problems.append(f'{q}: built {str(r)[:120]}')
        else:
            checks.append((f'GeoSeries.{q} data', differs(r[1], arr_q(q))))
    r = it.call(meth('intersects_bounds'), [selfobj, box])
    if not (isinstance(r, tuple) and r[0] == 'Series' and r[2] == 'THE-INDEX'):
        problems.append(f'intersects_bounds: built {str(r)[:120]}')
    else:
        checks.append(('GeoSeries.intersects_bounds data', differs(r[1], arr_q('intersects_bounds', box), boolean=True)))
    # hilbert_distance: arguments handed on unchanged (array-level behaviour is C08)
    seen = []
    arr_hd = type(arr).hilbert_distance

    class HD:
        _pysym_model = True

        def __init__(self, a):
            self.a, self.index = a, 'THE-INDEX'
            self.array = self

        def hilbert_distance(self, total_bounds=None, p=10):
            seen.append((total_bounds, p))
            return 'DISTANCES'
    for tb, p in ((None, 7), ((0.0, 0.0, 4.0, 4.0), 3)):
        seen.clear()
        r = it.call(meth('hilbert_distance'), [HD(arr)], {'total_bounds': tb, 'p': p})
        if not (isinstance(r, tuple) and r[0] == 'Series' and r[1] == 'DISTANCES' and r[2] == 'THE-INDEX' and seen == [(tb, p)]):
            problems.append(f'hilbert_distance({tb}, {p}): {str(r)[:100]} with array call {seen}')
    # cx / sindex / build_sindex
    cx = it.call(meth('cx'), [selfobj])
    if type(cx).__name__ != '_CoordinateIndexer' or cx._obj is not arr or cx._parent is not selfobj:
        problems.append('GeoSeries.cx does not hand (array, parent=self) to the coordinate indexer')
    frame = FakeFrame(FakeSeries(arr))
    cxf = it.call(it.func(GD, 'GeoDataFrame.cx'), [frame])
    if type(cxf).__name__ != '_CoordinateIndexer' or cxf._obj is not arr or cxf._parent is not frame:
        problems.append('GeoDataFrame.cx does not hand (active geometry array, parent=self) to the coordinate indexer')
    s = z3.Solver()
    res, solver_s = {}, 0.0
    for name, disj in checks:
        s.push()
        s.add(disj)
        st, m, dt = z3_check(s, timeout, seed)
        solver_s += dt
        res[name] = st
        if m is not None:
            problems.append(f'{name}: differs from the array-level quantity, e.g. {str(model_ints(m, ts.zvars[:6]))[:160]}')
        s.pop()
    status = 'violated' if problems else ('holds' if all(v == 'unsat' for v in res.values()) else 'unknown')
    return {'status': status, 'problems': problems, 'verdicts': res, 'solver_s': round(solver_s, 3), 'queries': len(checks), 'formula_size': 1 + len(checks),
            'encoded': it.encoded, 'symex_s': round(time.time() - t0 - solver_s, 2)}


class FakeFrame:
    _pysym_model = True

    def __init__(self, geom_series):
        self.geometry = geom_series


def run(check, pool, Task, kinds=('polygon', 'point')):
    tasks = [Task(f'glue: GeoSeries/GeoDataFrame methods hand the array-level quantities to pandas ({k} array)', geoseries_task, (k,), {'seed': check.seed}, timeout=600,
                  meta={'kind': k}) for k in kinds]
    res = pool(tasks)
    for t in tasks:
        r = res.get(t.name, {'status': 'error', 'detail': 'no result'})
        if r['status'] == 'violated':
            # replay: the same comparison on a real GeoSeries
            bad, wit = replay(t.meta['kind'])
            if bad:
                v = check.violation(f"{check.pid}:geoseries-glue", f"GeoSeries/GeoDataFrame wrapper differs from the array-level quantity: {wit['problems'][:3]}", wit)
                check.record(t.name, dict(r, status='known-finding' if v == 'known' else 'violated'), 'wrapper', t.meta)
            else:
                check.record(t.name, dict(r, status='inconclusive', detail=f"symbolic finding {r.get('problems')} did not reproduce on a real GeoSeries"), 'wrapper', t.meta)
        else:
            check.record(t.name, r, 'wrapper', t.meta)


def replay(kind):
    import pandas as pd
    import spatialpandas as sp
    from .wrappers import concrete_array
    arr = concrete_array(kind, BASE[kind], 'float64', {})
    idx = pd.Index([f'r{i}' for i in range(len(arr))][::-1])
    s = sp.GeoSeries(arr, index=idx)
    problems = []

    def eq(a, b):
        a, b = np.asarray(a, dtype=float), np.asarray(b, dtype=float)
        return a.shape == b.shape and bool(np.all((a == b) | (np.isnan(a) & np.isnan(b))))
    try:
        b = s.bounds
        if list(b.columns) != ['x0', 'y0', 'x1', 'y1'] or list(b.index) != list(idx) or not eq(b.values, arr.bounds):
            problems.append('bounds')
        if not eq(s.total_bounds, arr.total_bounds):
            problems.append('total_bounds')
        for q in ('area', 'length'):
            v = getattr(s, q)
            if list(v.index) != list(idx) or not eq(v.values, getattr(arr, q)):
                problems.append(q)
        box = (-3.0, -3.0, 6.0, 6.0)
        v = s.intersects_bounds(box)
        if list(v.index) != list(idx) or list(v.values) != list(arr.intersects_bounds(box)):
            problems.append('intersects_bounds')
        v = s.hilbert_distance(p=4)
        if list(v.index) != list(idx) or list(v.values) != list(arr.hilbert_distance(p=4)):
            problems.append('hilbert_distance')
        df = sp.GeoDataFrame({'geometry': arr, 'v': range(len(arr))}, index=idx)
        if list(df.cx[-3:6, -3:6].index) != list(s.cx[-3:6, -3:6].index) or list(s.cx[-3:6, -3:6].index) != [i for i, m in zip(idx, arr.intersects_bounds(box)) if m]:
            problems.append('cx')
    except Exception as e:  # noqa: BLE001
        problems.append(f'raises {type(e).__name__}: {e}')
    return bool(problems), {'kind': kind, 'problems': problems}
