"""Translator validation (DESIGN 3.7): the interpreter, run in CONCRETE mode (no solver, all inputs concrete), is
compared with the jitted functions of the current tree on seeded inputs that are rich in ties, collinear triples,
NaN and infinities.  Any disagreement is a harness error (exit 3), never a finding: it means the engine's model of
numba/numpy semantics is wrong for this source.
"""
import math
import random

import numpy as np

from pysym import values
from pysym.core import Interp, SelfObj, Stub
from pysym.values import PathRaise, INTDOM

ALG = 'spatialpandas.geometry._algorithms.intersection'
BND = 'spatialpandas.geometry._algorithms.bounds'
MEAS = 'spatialpandas.geometry._algorithms.measures'
ORI = 'spatialpandas.geometry._algorithms.orientation'
HC = 'spatialpandas.spatialindex.hilbert_curve'
RT = 'spatialpandas.spatialindex.rtree'
PT = 'spatialpandas.geometry.point'
UT = 'spatialpandas.utils'


def same(a, b):
    if isinstance(a, str) or isinstance(b, str):
        return a == b
    if isinstance(a, (tuple, list)) or isinstance(b, (tuple, list)):
        a, b = list(a), list(b)
        return len(a) == len(b) and all(same(x, y) for x, y in zip(a, b))
    if isinstance(a, np.ndarray) or isinstance(b, np.ndarray):
        a, b = np.asarray(a), np.asarray(b)
        if a.shape != b.shape:
            return False
        return all(same(x, y) for x, y in zip(a.ravel().tolist(), b.ravel().tolist()))
    if a is None or b is None:
        return a is b
    if isinstance(a, (bool, np.bool_)) or isinstance(b, (bool, np.bool_)):
        return bool(a) == bool(b)
    fa, fb = float(a), float(b)
    return fa == fb or (fa != fa and fb != fb) or (abs(fa - fb) <= 1e-12 * max(1.0, abs(fa)))


def small(rnd, special=False):
    v = float(rnd.randint(-3, 3))
    if special:
        r = rnd.random()
        if r < 0.12:
            return float('nan')
        if r < 0.18:
            return float('inf') if rnd.random() < 0.5 else float('-inf')
    return v


def flat(rnd, k, special=False):
    return np.array([small(rnd, special) for _ in range(2 * k)], dtype=np.float64)


def ring(rnd, m):
    pts = [small(rnd) for _ in range(2 * m)]
    return pts + pts[:2]


def real(mod, name):
    import importlib
    f = importlib.import_module(mod)
    for part in name.split('.'):
        f = getattr(f, part)
    return f


def run(groups, seed=0, n=40):
    """-> (comparisons, list of disagreement descriptions)"""
    values.set_mul_mode('exact')
    INTDOM['mode'] = 'int'
    rnd = random.Random(seed * 7919 + 13)
    it = Interp()
    comparisons = 0
    bad = []

    def cmp(label, got_i, got_r, inp):
        nonlocal comparisons
        comparisons += 1
        if not same(got_i, got_r) and len(bad) < 8:
            bad.append(f"{label}: interpreter {got_i!r} vs jitted {got_r!r} on {inp!r}"[:600])

    def call(mod, name, args):
        return it.call(it.func(mod, name), [a.copy() if isinstance(a, np.ndarray) else a for a in args])
    u32 = lambda x: np.array(x, dtype=np.uint32)   # noqa: E731
    if 'segments' in groups:
        for _ in range(n * 3):
            a = [small(rnd) for _ in range(8)]
            cmp('segments_intersect', call(ALG, 'segments_intersect', a), real(ALG, 'segments_intersect')(*a), a)
            b = [small(rnd) for _ in range(6)]
            cmp('segment_intersects_point', call(ALG, 'segment_intersects_point', b), real(ALG, 'segment_intersects_point')(*b), b)
            c = [small(rnd) for _ in range(6)]
            cmp('triangle_orientation', call(ORI, 'triangle_orientation', c), real(ORI, 'triangle_orientation')(*c), c)
    if 'pip' in groups:
        for _ in range(n * 2):
            rs = [ring(rnd, rnd.randint(1, 4)) for _ in range(rnd.randint(1, 2))]
            vals = np.array([c for r in rs for c in r], dtype=np.float64)
            offs = [0]
            for r in rs:
                offs.append(offs[-1] + len(r))
            q = (small(rnd), small(rnd))
            cmp('point_intersects_polygon', call(ALG, 'point_intersects_polygon', [q[0], q[1], vals, u32(offs)]),
                real(ALG, 'point_intersects_polygon')(q[0], q[1], vals, u32(offs)), (q, rs))
    if 'bounds_kernels' in groups:
        for _ in range(n):
            k = rnd.randint(0, 4)
            v = flat(rnd, k, True)
            cmp('total_bounds_interleaved', call(BND, 'total_bounds_interleaved', [v]), real(BND, 'total_bounds_interleaved')(v), v.tolist())
            if k:
                for off in (0, 1):
                    cmp('total_bounds_interleaved_1d', call(BND, 'total_bounds_interleaved_1d', [v, off]), real(BND, 'total_bounds_interleaved_1d')(v, off), v.tolist())
            ks = [rnd.randint(0, 3) for _ in range(3)]
            vv = flat(rnd, sum(ks), True)
            offs = [0]
            for kk in ks:
                offs.append(offs[-1] + 2 * kk)
            cmp('bounds_interleaved', call(BND, 'bounds_interleaved', [vv, u32(offs)]), real(BND, 'bounds_interleaved')(vv, u32(offs)), (vv.tolist(), offs))
    if 'box_kernels' in groups:
        for _ in range(n):
            box = [small(rnd) for _ in range(4)]
            ks = [rnd.randint(0, 4) for _ in range(2)]
            vv = flat(rnd, sum(ks))
            offs = [0]
            for kk in ks:
                offs.append(offs[-1] + 2 * kk)
            for nm in ('multipoints_intersect_bounds', 'lines_intersect_bounds'):
                ri = it.np.zeros(2, dtype=np.bool_)
                it.call(it.func(ALG, nm), [*box, vv.copy(), u32(offs[:-1]), u32(offs[1:]), ri])
                rr = np.zeros(2, dtype=np.bool_)
                real(ALG, nm)(*box, vv, u32(offs[:-1]), u32(offs[1:]), rr)
                cmp(nm, [bool(x) for x in ri], rr.tolist(), (box, vv.tolist(), offs))
            ri = it.np.zeros(1, dtype=np.bool_)
            it.call(it.func(ALG, 'multilines_intersect_bounds'), [*box, vv.copy(), u32([0]), u32([2]), u32(offs), ri])
            rr = np.zeros(1, dtype=np.bool_)
            real(ALG, 'multilines_intersect_bounds')(*box, vv, u32([0]), u32([2]), u32(offs), rr)
            cmp('multilines_intersect_bounds', [bool(x) for x in ri], rr.tolist(), (box, vv.tolist(), offs))
            # polygons: two polygons (1-2 rings), and a two-part multipolygon over the same buffers
            rs = [ring(rnd, rnd.randint(1, 4)) for _ in range(3)]
            vals = np.array([c for r in rs for c in r], dtype=np.float64)
            ro = [0]
            for r in rs:
                ro.append(ro[-1] + len(r))
            po = [0, 2, 3]
            ri = it.np.zeros(2, dtype=np.bool_)
            it.call(it.func(ALG, 'polygons_intersect_bounds'), [*box, vals.copy(), u32(po[:-1]), u32(po[1:]), u32(ro), ri])
            rr = np.zeros(2, dtype=np.bool_)
            real(ALG, 'polygons_intersect_bounds')(*box, vals, u32(po[:-1]), u32(po[1:]), u32(ro), rr)
            cmp('polygons_intersect_bounds', [bool(x) for x in ri], rr.tolist(), (box, rs))
            ri = it.np.zeros(1, dtype=np.bool_)
            it.call(it.func(ALG, 'multipolygons_intersect_bounds'), [*box, vals.copy(), u32([0]), u32([2]), u32(po), u32(ro), ri])
            rr = np.zeros(1, dtype=np.bool_)
            real(ALG, 'multipolygons_intersect_bounds')(*box, vals, u32([0]), u32([2]), u32(po), u32(ro), rr)
            cmp('multipolygons_intersect_bounds', [bool(x) for x in ri], rr.tolist(), (box, rs))
    if 'point_kernels' in groups:
        for _ in range(n):
            pts = flat(rnd, 3)
            ks = [rnd.randint(1, 4) for _ in range(2)]
            vv = flat(rnd, sum(ks))
            offs = [0]
            for kk in ks:
                offs.append(offs[-1] + 2 * kk)
            inds = np.array([2, 0, 1, 1])
            cmp('_perform_intersects_line', [bool(x) for x in call(PT, '_perform_intersects_line', [pts, vv, u32(offs), inds])],
                real(PT, '_perform_intersects_line')(pts, vv, u32(offs), inds).tolist(), (pts.tolist(), vv.tolist(), offs))
            cmp('_perform_intersects_multipoint', [bool(x) for x in call(PT, '_perform_intersects_multipoint', [pts, vv, inds])],
                real(PT, '_perform_intersects_multipoint')(pts, vv, inds).tolist(), (pts.tolist(), vv.tolist()))
            rs = [ring(rnd, rnd.randint(2, 4)) for _ in range(2)]
            vals = np.array([c for r in rs for c in r], dtype=np.float64)
            ro = [0]
            for r in rs:
                ro.append(ro[-1] + len(r))
            cmp('_perform_intersects_polygon', [bool(x) for x in call(PT, '_perform_intersects_polygon', [pts, vals, u32(ro), inds])],
                real(PT, '_perform_intersects_polygon')(pts, vals, u32(ro), inds).tolist(), (pts.tolist(), rs))
    if 'measures' in groups:
        for _ in range(n):
            rs = [ring(rnd, rnd.randint(0, 4)) if rnd.random() < 0.8 else [small(rnd), small(rnd)] for _ in range(rnd.randint(1, 3))]
            vals = np.array([c for r in rs for c in r], dtype=np.float64)
            ro = [0]
            for r in rs:
                ro.append(ro[-1] + len(r))
            if len(vals):
                cmp('compute_area', call(MEAS, 'compute_area', [vals, u32(ro)]), real(MEAS, 'compute_area')(vals, u32(ro)), rs)
            ks = [rnd.randint(1, 4) for _ in range(2)]
            vv = flat(rnd, sum(ks), True)
            offs = [0]
            for kk in ks:
                offs.append(offs[-1] + 2 * kk)
            cmp('compute_line_length', call(MEAS, 'compute_line_length', [vv, u32(offs)]), real(MEAS, 'compute_line_length')(vv, u32(offs)), (vv.tolist(), offs))
    if 'orient' in groups:
        for _ in range(n):
            rs = [ring(rnd, rnd.randint(1, 4)) for _ in range(3)]
            vals = np.array([c for r in rs for c in r], dtype=np.float64)
            ro = [0]
            for r in rs:
                ro.append(ro[-1] + len(r))
            po = rnd.choice([[0, 2, 3], [0, 1, 3], [1, 3], [0, 3, 3]])
            vi = vals.copy()
            it.call(it.func(ORI, 'orient_polygons'), [vi, u32(po), u32(ro)])
            vr = vals.copy()
            real(ORI, 'orient_polygons')(vr, u32(po), u32(ro))
            cmp('orient_polygons', vi.tolist(), vr.tolist(), (rs, po))
    if 'hilbert' in groups:
        INTDOM['mode'] = 'int'
        for _ in range(n):
            for nn in (1, 2, 3):
                p = rnd.randint(1, 62 // nn if nn != 2 else 31)
                c = [rnd.randrange(1 << p) for _ in range(nn)]
                d_r = int(real(HC, 'distance_from_coordinate')(p, np.array(c, dtype=np.int64)))
                d_i = int(call(HC, 'distance_from_coordinate', [p, np.array(c, dtype=np.int64)]))
                cmp('distance_from_coordinate', d_i, d_r, (p, c))
                h = rnd.randrange(1 << (nn * p))
                cmp('coordinate_from_distance', [int(x) for x in call(HC, 'coordinate_from_distance', [p, nn, h])],
                    [int(x) for x in real(HC, 'coordinate_from_distance')(p, nn, np.int64(h))], (p, nn, h))
            p = rnd.randint(1, 31)
            cs = np.array([[rnd.randrange(1 << p) for _ in range(2)] for _ in range(3)], dtype=np.int64)
            cmp('distances_from_coordinates', [int(x) for x in call(HC, 'distances_from_coordinates', [p, cs])],
                [int(x) for x in real(HC, 'distances_from_coordinates')(p, cs.copy())], (p, cs.tolist()))
    if 'rtree' in groups:
        from spatialpandas.spatialindex.rtree import HilbertRtree
        mod = it.module(RT)
        it.stubs['_NumbaRtree'] = Stub(lambda b, k, ps, bt: SelfObj('_NumbaRtree', mod, _bounds=b, _keys=k, _page_size=ps, _bounds_tree=bt), 'jitclass')
        # the real curve order is used here: float->int conversion of the scaled mid points
        it.stubs['float_to_int'] = Stub(lambda x: int(x) if (x == x and abs(x) != math.inf) else -(1 << 63), 'C float->int64 (x86: INT64_MIN for NaN/inf)')
        for _ in range(max(6, n // 4)):
            nrows = rnd.randint(0, 6)
            d = rnd.choice([1, 2, 2, 3])
            lo = np.array([[small(rnd) for _ in range(d)] for _ in range(nrows)]).reshape(nrows, d)
            ext = np.array([[float(rnd.randint(0, 2)) for _ in range(d)] for _ in range(nrows)]).reshape(nrows, d)
            b = np.hstack([lo, lo + ext]) if nrows else np.zeros((0, 2 * d))
            for i in range(nrows):
                if rnd.random() < 0.2:
                    b[i, :] = np.nan
            ps = rnd.randint(1, 4)
            q = [small(rnd) for _ in range(d)]
            q = tuple(q + [x + rnd.randint(0, 3) for x in q])
            try:
                t_r, exc_r = HilbertRtree(b, p=rnd.randint(1, 10), page_size=ps), None
            except Exception as e:  # noqa: BLE001
                t_r, exc_r = None, type(e).__name__
            t_i = HilbertRtree.__new__(HilbertRtree)
            try:
                it.call(it.func(RT, 'HilbertRtree.__init__'), [t_i, b.copy()], {'p': 5, 'page_size': ps})
                exc_i = None
            except PathRaise as e:
                exc_i = getattr(e.exc, '__name__', str(e.exc))
            if exc_r or exc_i:          # the constructor raises: both sides must agree on it
                cmp('HilbertRtree.__init__ raises', exc_i, exc_r, (b.tolist(), ps))
                continue
            gi = sorted(int(x) for x in it.call(it.getattr_(t_i, 'intersects', None, True), [q]))
            cmp('HilbertRtree.intersects', gi, sorted(int(x) for x in t_r.intersects(q)), (b.tolist(), ps, q))
            ci, oi = it.call(it.getattr_(t_i, 'covers_overlaps', None, True), [q])
            cr, orr = t_r.covers_overlaps(q)
            cmp('HilbertRtree.covers_overlaps', (sorted(int(x) for x in ci), sorted(int(x) for x in oi)), (sorted(int(x) for x in cr), sorted(int(x) for x in orr)), (b.tolist(), ps, q))
            cmp('HilbertRtree.total_bounds', list(it.getattr_(t_i, 'total_bounds', None, True)), list(t_r.total_bounds), b.tolist())
    if 'data2coord' in groups:
        it.stubs['float_to_int'] = Stub(lambda x: int(x) if (x == x and abs(x) != math.inf) else -(1 << 63), 'C float->int64 (x86: INT64_MIN for NaN/inf)')
        for _ in range(n):
            vals = np.array([small(rnd, True) * rnd.choice([0.5, 1.0, 3.0]) for _ in range(4)])
            lo = small(rnd)
            rng_ = (lo, lo + rnd.choice([1.0, 2.0, 8.0]))
            nn = 1 << rnd.randint(1, 12)
            cmp('_data2coord', [int(x) for x in call(UT, '_data2coord', [vals, rng_, nn])], [int(x) for x in real(UT, '_data2coord')(vals, rng_, nn)], (vals.tolist(), rng_, nn))
    return comparisons, bad


def apply(check, groups, n=None):
    """run the validation for a check and record it; a disagreement is a harness error"""
    n = n or (120 if check.tier == 'thorough' else 40)
    try:
        comps, bad = run(groups, seed=check.seed, n=n)
    except Exception as e:  # noqa: BLE001
        import traceback
        check.harness_error(f"translator validation crashed: {type(e).__name__}: {e}\n{traceback.format_exc()[-800:]}")
        return
    check.validation['comparisons'] += comps
    check.validation['disagreements'] += len(bad)
    check.validation.setdefault('groups', []).extend(groups)
    for b in bad:
        check.harness_error('translator validation: ' + b)
    check.log(f"translator validation: {comps} concrete comparisons interpreter vs jitted code ({', '.join(groups)}), {len(bad)} disagreements")
