"""C15 driver: orient_polygons kernel (fork on ring orientation) + oriented() wrappers on tagged arrays."""
from . import c15


def run(check, pool, Task):
    from . import validate
    validate.apply(check, ['orient', 'measures'])
    thorough = check.tier == 'thorough'
    cap = 900
    check.bounds.update({'kernel': 'polygons of <= 3 rings of <= 5 (4 rings, or one ring of <= 8, thorough) distinct vertices, <= 3 polygons, optional leading ring outside the slice; |v| <= 2^24',
                         'wrappers': 'arrays of 5 elements (missing, empty, 1-3 rings) and derivations of them; coordinates real-valued (polynomial sign conditions decided by nlsat)',
                         'intersection invariance': 'by composition: (a) valid polygons (holes wound opposite to the shell) are flipped as a whole or not at all - checked on every path; (b) the box/point oracles are symmetric under reversal of all rings (lemmas Dsym, WNsym, exact, |v|<=2^25); (c) kernel == oracle for rings wound either way (C01/C02, within their bounds)'})
    check.assumptions += ['rings are stored closed (first vertex repeated)', 'exact arithmetic (areas are exact below 2^24 / for the real-valued model)']
    kernel = [([[3]], 0), ([[4]], 0), ([[3, 3]], 0), ([[3], [3]], 0), ([[3, 3]], 1), ([[3, 3], [4]], 0), ([[2]], 0), ([[3, 0]], 0), ([[3], []], 0), ([[1]], 0),
              ([[5]], 0), ([[4, 3, 3]], 0), ([[3, 3], [3, 3]], 1), ([[3], [3], [3]], 2)]
    if thorough:
        kernel += [([[6]], 0), ([[8]], 0), ([[5, 4]], 0), ([[4, 4, 4]], 0), ([[6, 3], [5]], 1), ([[3, 3, 3, 3]], 0)]
    tasks = [Task(f'lemma:oracle symmetry {nm} (reversing a ring does not change separation / negates the winding contribution)', c15.symmetry_lemma, (nm,), {'seed': check.seed},
                  timeout=300, meta={'level': 'lemma'}) for nm in ('Dsym', 'WNsym')]
    for polys, lead in kernel:
        tasks.append(Task(f'kernel:orient_polygons polygons={polys} leading_rings={lead}', c15.explore, (polys,), {'lead_rings': lead, 'timeout': cap - 60},
                          timeout=cap, meta={'level': 'kernel', 'polys': polys, 'lead': lead}))
    for polys, lead in ([[3]], 0), ([[3, 3]], 0), ([[4], [3]], 1):
        tasks.append(Task(f'kernel:orient_polygons polygons={polys} leading_rings={lead} int32 coordinates', c15.explore, (polys,),
                          {'lead_rings': lead, 'timeout': cap - 60, 'int_dtype': 'int32'}, timeout=cap, meta={'level': 'kernel', 'polys': polys, 'lead': lead, 'int_dtype': 'int32'}))
    derivs = ['identity', 'slice[1:]', 'take_fill[0,NA,2]', 'concat[2:]+[:2]', 'empty[:0]'] + (['slice[1:3]', 'pickle(slice)[1:]', 'reverse[::-1]', 'head[:2]'] if thorough else [])
    for kind in ('polygon', 'multipolygon'):
        for d in derivs:
            tasks.append(Task(f'wrappers:{kind}.oriented() {d}', c15.oriented_task, (kind, d), {'timeout': cap - 60}, timeout=cap,
                              meta={'level': 'wrapper', 'kind': kind, 'deriv': d}))
    for kind in ('polygon', 'multipolygon'):
        for d in ('identity', 'slice[1:]'):
            for dt in (('int32', 'int16', 'int64') if thorough else ('int32',)):
                tasks.append(Task(f'wrappers:{kind}[{dt}].oriented() {d}', c15.oriented_task, (kind, d), {'timeout': cap - 60, 'dtype': dt}, timeout=cap,
                                  meta={'level': 'wrapper', 'kind': kind, 'deriv': d, 'dtype': dt}))
    # as many rings as polygons although there are holes: a hole balanced by a ring-less element
    for polys in ([[3, 3], []], [[], [3, 3]]):
        tasks.append(Task(f'kernel:orient_polygons polygons={polys} leading_rings=0 (ring count == polygon count)', c15.explore, (polys,), {'lead_rings': 0, 'timeout': cap - 60},
                          timeout=cap, meta={'level': 'kernel', 'polys': polys, 'lead': 0}))
    for kind, base in (('polygon', [[3, 3], None]), ('polygon', [[], [3, 3], [3]][:2]), ('multipolygon', [[[3, 3], []], None, [[3]]])):
        tasks.append(Task(f'wrappers:{kind}.oriented() identity elements={base} (ring count == polygon count)', c15.oriented_task, (kind, 'identity'),
                          {'timeout': cap - 60, 'base': base}, timeout=cap, meta={'level': 'wrapper', 'kind': kind, 'deriv': 'identity', 'base': base}))
    res = pool(tasks)
    for t in tasks:
        r = res.get(t.name, {'status': 'error', 'detail': 'no result'})
        m = t.meta
        if r['status'] == 'violated':
            try:
                if m['level'] == 'kernel':
                    bad, wit = c15.replay(m['polys'], m['lead'], _integral(r['model']), m.get('int_dtype'))
                else:
                    model = _integral(r.get('model') or {})
                    bad, wit = c15.replay_oriented(m['kind'], m['deriv'], model, specs=m.get('base'), dtype=m.get('dtype', 'float64'))
            except OverflowError as e:
                check.record(t.name, dict(r, status='inconclusive', detail=f'counterexample not representable in the coordinate subtype: {e}'), 'paths', m)
                continue
            except Exception as e:  # noqa: BLE001
                import traceback
                check.harness_error(f"replay of {t.name} failed: {type(e).__name__}: {e}\n{traceback.format_exc()[-600:]}")
                continue
            if bad:
                probs = wit.get('problems', [])
                cls = 'not-idempotent' if any('idempotent' in p for p in probs) and len(probs) == 1 else ('raises' if any('raises' in p for p in probs) else 'wrong-orientation-or-content')
                v = check.violation(f"C15:{m.get('kind', 'kernel')}:{cls}", f"oriented(): {probs[:3]}", wit)
                check.record(t.name, dict(r, status='known-finding' if v == 'known' else 'violated'), 'paths', m)
            else:
                check.record(t.name, dict(r, status='inconclusive', detail=f"symbolic finding {r.get('problems')} did not reproduce on the real code"), 'paths', m)
        else:
            check.record(t.name, r, 'paths', m)


def _integral(model):
    """scale a rational model to integers (every clause of the property is invariant under scaling)"""
    from fractions import Fraction
    from math import lcm
    den = 1
    for v in model.values():
        if isinstance(v, Fraction):
            den = lcm(den, v.denominator)
    return {k: (int(Fraction(v) * den) if not isinstance(v, bool) else v) for k, v in model.items()}


def replay(path):
    import json
    print(json.dumps(json.load(open(path))['witness'], indent=1)[:3000])
    return 0
