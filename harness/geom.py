"""Declarative geometric oracles.

Symbolic versions build z3 terms (products go through values.zmul, so the same text is exact or uses the
uninterpreted `mul` according to the current mode).  Exact versions (suffix _x) work on python ints / Fractions and
are written differently on purpose (clipping instead of separating axes, vertical instead of horizontal rays) so
that the two can be cross-checked against each other.
"""
from fractions import Fraction

import z3

from pysym import values
from pysym.values import Num


def zm(a, b):
    return values.zmul(a, b)


def zmin(a, b):
    return z3.If(b < a, b, a)


def zmax(a, b):
    return z3.If(b > a, b, a)


def cr(u, w, q):
    """cross product (w-u) x (q-u): > 0 iff q is strictly left of the directed line u->w"""
    return zm(w[0] - u[0], q[1] - u[1]) - zm(w[1] - u[1], q[0] - u[0])


def inr(P, box):
    return z3.And(box[0] <= P[0], P[0] <= box[2], box[1] <= P[1], P[1] <= box[3])


def on_seg(q, a, b):
    return z3.And(cr(a, b, q) == 0, q[0] >= zmin(a[0], b[0]), q[0] <= zmax(a[0], b[0]),
                  q[1] >= zmin(a[1], b[1]), q[1] <= zmax(a[1], b[1]))


def corners(box):
    x0, y0, x1, y1 = box
    return [(x0, y0), (x1, y0), (x1, y1), (x0, y1)]


def Dsep(P, Q, box):
    """closed segment PQ and closed box are disjoint  <=>  a separating axis exists among: x, y, normal of PQ"""
    x0, y0, x1, y1 = box
    cs = [cr(P, Q, c) for c in corners(box)]
    return z3.Or(zmax(P[0], Q[0]) < x0, zmin(P[0], Q[0]) > x1, zmax(P[1], Q[1]) < y0, zmin(P[1], Q[1]) > y1,
                 z3.And(*[c > 0 for c in cs]), z3.And(*[c < 0 for c in cs]))


def wn_up_edge(u, w, q):
    """contribution of edge u->w to the winding number of the upward-perturbed point: half-open rule [lo, hi)"""
    c = cr(u, w, q)
    return z3.If(z3.And(u[1] <= q[1], q[1] < w[1], c > 0), 1, z3.If(z3.And(w[1] <= q[1], q[1] < u[1], c < 0), -1, 0))


def wn_down_edge(u, w, q):
    """half-open rule (lo, hi]: winding number of the downward-perturbed point"""
    c = cr(u, w, q)
    return z3.If(z3.And(u[1] < q[1], q[1] <= w[1], c > 0), 1, z3.If(z3.And(w[1] < q[1], q[1] <= u[1], c < 0), -1, 0))


def wn_up(rings, q):
    return z3.Sum([wn_up_edge(r[i], r[i + 1], q) for r in rings for i in range(len(r) - 1)] + [z3.IntVal(0)])


# ---- facts about real multiplication used as lemma instances in UF mode (each is proved exactly first)
def E2(u, w, q):
    c = cr(u, w, q)
    a = z3.Implies(q[1] == w[1], z3.And((c > 0) == z3.Or(z3.And(w[1] > u[1], q[0] < w[0]), z3.And(w[1] < u[1], q[0] > w[0])),
                                        (c < 0) == z3.Or(z3.And(w[1] > u[1], q[0] > w[0]), z3.And(w[1] < u[1], q[0] < w[0]))))
    b = z3.Implies(q[1] == u[1], z3.And((c > 0) == z3.Or(z3.And(w[1] > u[1], q[0] < u[0]), z3.And(w[1] < u[1], q[0] > u[0])),
                                        (c < 0) == z3.Or(z3.And(w[1] > u[1], q[0] > u[0]), z3.And(w[1] < u[1], q[0] < u[0]))))
    return z3.And(a, b)


def E34(u, w, q):
    c = cr(u, w, q)
    span = z3.Or(z3.And(u[1] <= q[1], q[1] <= w[1]), z3.And(w[1] <= q[1], q[1] <= u[1]))
    left = z3.Implies(z3.And(span, q[0] < zmin(u[0], w[0])), z3.And((c > 0) == (w[1] > u[1]), (c < 0) == (w[1] < u[1])))
    right = z3.Implies(z3.And(span, q[0] > zmax(u[0], w[0])), z3.And((c > 0) == (w[1] < u[1]), (c < 0) == (w[1] > u[1])))
    return z3.And(left, right)


def L2(P, Q, box):
    x0, y0, x1, y1 = box
    a = z3.Implies(z3.And(x0 <= P[0], P[0] <= x1, x0 <= Q[0], Q[0] <= x1, z3.Not(z3.And(P[1] < y0, Q[1] < y0)),
                          z3.Not(z3.And(P[1] > y1, Q[1] > y1))), z3.Not(Dsep(P, Q, box)))
    b = z3.Implies(z3.And(y0 <= P[1], P[1] <= y1, y0 <= Q[1], Q[1] <= y1, z3.Not(z3.And(P[0] < x0, Q[0] < x0)),
                          z3.Not(z3.And(P[0] > x1, Q[0] > x1))), z3.Not(Dsep(P, Q, box)))
    return z3.And(a, b)


def LB(q, P, Q, box):
    return z3.Implies(z3.And(on_seg(q, P, Q), inr(q, box)), z3.Not(Dsep(P, Q, box)))


def LP(q, P, Q):
    """closed-segment membership: cross == 0 and inside the segment's bounding box (used for point-on-line)"""
    return on_seg(q, P, Q)


# ------------------------------------------------------------------------------------------------ exact oracles
def F(x):
    return x if isinstance(x, Fraction) else Fraction(x)


def cross_x(u, w, q):
    return (F(w[0]) - F(u[0])) * (F(q[1]) - F(u[1])) - (F(w[1]) - F(u[1])) * (F(q[0]) - F(u[0]))


def on_seg_x(q, a, b):
    """q on the closed segment ab: parametrically (independent of the symbolic formulation)"""
    a = (F(a[0]), F(a[1])); b = (F(b[0]), F(b[1])); q = (F(q[0]), F(q[1]))
    dx, dy = b[0] - a[0], b[1] - a[1]
    if dx == 0 and dy == 0:
        return q == a
    t = ((q[0] - a[0]) * dx + (q[1] - a[1]) * dy) / (dx * dx + dy * dy)
    if t < 0 or t > 1:
        return False
    return a[0] + t * dx == q[0] and a[1] + t * dy == q[1]


def seg_box_x(P, Q, box):
    """closed segment meets closed box (x0<=x1, y0<=y1): Liang-Barsky clipping in exact arithmetic"""
    x0, y0, x1, y1 = [F(v) for v in box]
    px, py, qx, qy = F(P[0]), F(P[1]), F(Q[0]), F(Q[1])
    t0, t1 = Fraction(0), Fraction(1)
    dx, dy = qx - px, qy - py
    for p_, q_ in ((-dx, px - x0), (dx, x1 - px), (-dy, py - y0), (dy, y1 - py)):
        if p_ == 0:
            if q_ < 0:
                return False
        else:
            r = q_ / p_
            if p_ < 0:
                if r > t1:
                    return False
                t0 = max(t0, r)
            else:
                if r < t0:
                    return False
                t1 = min(t1, r)
    return t0 <= t1


def norm_box(b):
    x0, y0, x1, y1 = b
    return (min(x0, x1), min(y0, y1), max(x0, x1), max(y0, y1))


def line_box_x(verts, box):
    box = norm_box(box)
    if len(verts) == 0:
        return False
    if len(verts) == 1:
        return box[0] <= verts[0][0] <= box[2] and box[1] <= verts[0][1] <= box[3]
    return any(seg_box_x(verts[i], verts[i + 1], box) for i in range(len(verts) - 1))


def winding_x(rings, q, vertical=True):
    """winding number of q (must not lie on any ring segment) using a vertical upward ray (independent of the
    implementation, which uses a horizontal ray), summed over all rings"""
    qx, qy = F(q[0]), F(q[1])
    wn = 0
    for r in rings:
        for i in range(len(r) - 1):
            ux, uy, wx, wy = F(r[i][0]), F(r[i][1]), F(r[i + 1][0]), F(r[i + 1][1])
            if vertical:
                # edge crosses the vertical line x = qx (half-open in x), above q
                if ux <= qx < wx:
                    if cross_x((ux, uy), (wx, wy), (qx, qy)) < 0:    # q right of u->w, i.e. edge passes above q
                        wn -= 1
                elif wx <= qx < ux:
                    if cross_x((ux, uy), (wx, wy), (qx, qy)) > 0:
                        wn += 1
            else:
                if uy <= qy < wy:
                    if cross_x((ux, uy), (wx, wy), (qx, qy)) > 0:
                        wn += 1
                elif wy <= qy < uy:
                    if cross_x((ux, uy), (wx, wy), (qx, qy)) < 0:
                        wn -= 1
    return wn


def crossings_x(rings, q):
    """even-odd crossing count with a horizontal ray to the left (third formulation, for the domain check)"""
    qx, qy = F(q[0]), F(q[1])
    n = 0
    for r in rings:
        for i in range(len(r) - 1):
            ux, uy, wx, wy = F(r[i][0]), F(r[i][1]), F(r[i + 1][0]), F(r[i + 1][1])
            if (uy <= qy < wy) or (wy <= qy < uy):
                xi = ux + (qy - uy) * (wx - ux) / (wy - uy)
                if xi < qx:
                    n += 1
    return n


def on_boundary_x(rings, q):
    return any(on_seg_x(q, r[i], r[i + 1]) for r in rings for i in range(len(r) - 1)) or \
        any(len(r) == 1 and (F(r[0][0]), F(r[0][1])) == (F(q[0]), F(q[1])) for r in rings)


def point_in_polygon_x(rings, q):
    """-> (inside?, unambiguous?) for q off the boundary: nonzero winding (two ray directions) and even-odd"""
    w1 = winding_x(rings, q, True)
    w2 = winding_x(rings, q, False)
    eo = crossings_x(rings, q) % 2 == 1
    return (w1 != 0), (w1 == w2 and ((w1 != 0) == eo))


def polygon_box_x(rings, box):
    """closed polygon region (all rings of ONE polygon) meets closed box -> (answer, unambiguous?)"""
    box = norm_box(box)
    for r in rings:
        if len(r) == 1:
            if box[0] <= r[0][0] <= box[2] and box[1] <= r[0][1] <= box[3]:
                return True, True
        for i in range(len(r) - 1):
            if seg_box_x(r[i], r[i + 1], box):
                return True, True
    # no ring segment meets the box: the box lies in one face; decide by any corner (all agree)
    res = [point_in_polygon_x(rings, c) for c in corners(box)]
    ans = [a for a, _ in res]
    ok = all(u for _, u in res) and len(set(ans)) == 1
    return ans[0], ok


def rings_closed_x(rings):
    return all(len(r) == 0 or (r[0][0] == r[-1][0] and r[0][1] == r[-1][1]) for r in rings)


def signed_area2_x(ring):
    """twice the signed area (shoelace) of a closed ring given with repeated first vertex"""
    s = Fraction(0)
    for i in range(len(ring) - 1):
        s += F(ring[i][0]) * F(ring[i + 1][1]) - F(ring[i + 1][0]) * F(ring[i][1])
    return s


def num_pts(vs):
    """[(x,y),...] of z3 terms -> flat object array of Num"""
    import numpy as np
    flat = np.empty(2 * len(vs), dtype=object)
    for i, v in enumerate(vs):
        flat[2 * i] = v[0] if isinstance(v[0], Num) else Num(v[0])
        flat[2 * i + 1] = v[1] if isinstance(v[1], Num) else Num(v[1])
    return flat
