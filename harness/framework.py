"""Common machinery of the checks: obligation bookkeeping, known findings, replay files, evidence, exit codes.

Exit codes: 0 every obligation discharged (known findings printed) / 1 reproduced violation not listed in
known_findings.json / 2 inconclusive / 3 harness error.
"""
import json
import os
import sys
import time

VERIF = os.path.dirname(os.path.dirname(os.path.abspath(__file__)))
EVID = os.environ.get('VERIF_EVIDENCE_DIR') or os.path.join(VERIF, 'evidence')
REPLAY = os.path.join(EVID, 'replay')


def jsonable(o):
    import fractions
    import numpy as np
    if isinstance(o, dict):
        return {str(k): jsonable(v) for k, v in o.items()}
    if isinstance(o, (list, tuple, set)):
        return [jsonable(v) for v in o]
    if isinstance(o, np.ndarray):
        return jsonable(o.tolist())
    if isinstance(o, np.generic):
        return jsonable(o.item())
    if isinstance(o, fractions.Fraction):
        return int(o) if o.denominator == 1 else float(o)
    if isinstance(o, float) and (o != o or o in (float('inf'), float('-inf'))):
        return repr(o)
    if isinstance(o, (str, int, float, bool)) or o is None:
        return o
    return repr(o)


class Check:
    def __init__(self, pid, tier=None, seed=None):
        self.pid = pid
        self.tier = tier or os.environ.get('VERIF_TIER', 'quick')
        if self.tier not in ('quick', 'thorough'):
            self.tier = 'quick'
        try:
            self.seed = int(seed if seed is not None else os.environ.get('VERIF_SEED', '0'))
        except ValueError:
            self.seed = 0
        self.t0 = time.time()
        self.obligations = []        # dicts: name, status, wall_s, solver_s, kind, detail, structure
        self.violations = []         # dicts: key, what, replay path
        self.known_hits = []
        self.errors = []
        self.inconclusive = []
        self.encoded = {}
        self.assumptions = []
        self.bounds = {}
        self.stubs = []
        self.samples = []
        self.validation = {'comparisons': 0, 'disagreements': 0}
        self.extra = {}
        self.findings = self._load_findings()
        self._nviol = 0
        os.makedirs(REPLAY, exist_ok=True)

    def _load_findings(self):
        p = os.path.join(VERIF, 'known_findings.json')
        if not os.path.exists(p):
            return []
        try:
            return [f for f in json.load(open(p)).get('findings', []) if f.get('property') == self.pid]
        except Exception as e:
            self.errors.append(f"known_findings.json unreadable: {e}")
            return []

    # ---------------------------------------------------------------- bookkeeping
    def log(self, *a):
        print(f"[{self.pid} {time.time() - self.t0:6.1f}s]", *a, flush=True)

    def record(self, name, res, kind='query', structure=None):
        """res: dict from a worker (status unsat/sat/holds/violated/unknown/timeout/unsupported/error)"""
        ob = {'name': name, 'kind': kind, 'status': res.get('status'), 'wall_s': res.get('wall_s'),
              'solver_s': res.get('solver_s'), 'detail': res.get('detail'), 'structure': structure,
              'queries': res.get('queries', 1), 'formula_size': res.get('formula_size'), 'paths': res.get('paths')}
        self.obligations.append(ob)
        for k, v in (res.get('encoded') or {}).items():
            self.encoded[k] = v
        st = ob['status']
        if st in ('unknown', 'timeout', 'unsupported', 'inconclusive'):
            self.inconclusive.append(f"{name}: {st} {res.get('detail') or ''}"[:300])
        elif st == 'error':
            self.errors.append(f"{name}: {res.get('detail')} {res.get('trace', '')[-600:]}")
        if sum(1 for x in self.samples if x['kind'] == kind) < 4 and len(self.samples) < 24 and st in ('unsat', 'holds', 'sat', 'violated'):
            self.samples.append({'obligation': name, 'kind': kind, 'structure': jsonable(structure), 'verdict': st,
                                 'formula_size': res.get('formula_size'), 'solver_s': res.get('solver_s'),
                                 'paths': res.get('paths')})
        return ob

    def harness_error(self, msg):
        self.errors.append(msg)
        self.log("HARNESS-ERROR", msg)

    def inconc(self, msg):
        self.inconclusive.append(msg)
        self.log("INCONCLUSIVE", msg)

    def violation(self, key, what, witness):
        """a reproduced disagreement between the real code and the exact oracle"""
        for f in self.findings:
            if f.get('status') == 'open' and f.get('key') == key:
                if key not in [k for k, _ in self.known_hits]:
                    self.known_hits.append((key, f.get('what', what)))
                return 'known'
        if any(v['key'] == key and v['what'] == what for v in self.violations) or sum(1 for v in self.violations if v['key'] == key) >= 3:
            return 'dup'
        self._nviol += 1
        path = os.path.join(REPLAY, f"{self.pid}-{self._nviol}.json")
        with open(path, 'w') as fh:
            json.dump(jsonable({'property': self.pid, 'key': key, 'what': what, 'witness': witness}), fh, indent=1)
        self.violations.append({'key': key, 'what': what, 'replay': path})
        print(f"VIOLATION property={self.pid} replay={path}", flush=True)
        self.log("  ->", key, what)
        return 'new'

    # ---------------------------------------------------------------- finish
    def finish(self):
        wall = time.time() - self.t0
        for key, what in self.known_hits:
            print(f"KNOWN-FINDING: property={self.pid} {key}: {what}", flush=True)
        n = len(self.obligations)
        ok = [o for o in self.obligations if o['status'] in ('unsat', 'holds')]
        nontrivial = {o['name'] for o in self.obligations if (o.get('formula_size') or 0) > 0 or (o.get('paths') or 0) > 0}
        solver_s = sum((o.get('solver_s') or 0) for o in self.obligations)
        queries = sum((o.get('queries') or 0) for o in self.obligations)
        cov = {
            'evaluations': int(queries), 'distinct_nontrivial': len(nontrivial),
            'rule': 'one evaluation = one SMT query discharged (validity of an obligation, feasibility of a path, or '
                    'vacuity twin); an obligation is non-trivial when its formula contains symbolic variables after '
                    'constant folding (formula_size > 0) or explored >= 1 symbolic path; names are unique',
            'samples': self.samples or [{'note': 'no obligation completed'}],
            'obligations': n, 'discharged': len(ok),
            'inconclusive': self.inconclusive[:50], 'harness_errors': self.errors[:20],
            'functions_encoded': self.encoded, 'bounds': self.bounds, 'stubs': self.stubs,
            'solver': 'z3 ' + _z3v(), 'solver_seconds': round(solver_s, 2),
            'translator_validation': self.validation,
            'witnesses': self.violations, 'known_findings_hit': [k for k, _ in self.known_hits],
            'per_obligation': [{k: o[k] for k in ('name', 'kind', 'status', 'wall_s', 'solver_s', 'queries', 'paths')} for o in self.obligations][:400],
            'exhaustive': False,
        }
        cov.update(self.extra)
        ev = {'property_id': self.pid, 'tier': self.tier, 'seed': self.seed, 'level': 'model_checking',
              'coverage': jsonable(cov), 'assumptions': self.assumptions, 'wall_s': round(wall, 2),
              'violations': len(self.violations)}
        os.makedirs(EVID, exist_ok=True)
        with open(os.path.join(EVID, f"{self.pid}.json"), 'w') as fh:
            json.dump(ev, fh, indent=1)
        self.log(f"obligations={n} discharged={len(ok)} inconclusive={len(self.inconclusive)} errors={len(self.errors)} "
                 f"violations={len(self.violations)} known={len(self.known_hits)} queries={queries} solver={solver_s:.1f}s wall={wall:.1f}s")
        if self.violations:
            return 1
        if self.errors:
            for e in self.errors[:10]:
                self.log("ERROR:", e)
            return 3
        if self.inconclusive:
            for e in self.inconclusive[:10]:
                self.log("INCONCLUSIVE:", e)
            return 2
        return 0


def _z3v():
    try:
        import z3
        return z3.get_version_string()
    except Exception:
        return '?'


def z3_check(s, timeout_s=None, seed=None):
    """check a z3 solver; -> (status, model|None, seconds)"""
    import z3
    if timeout_s:
        s.set('timeout', int(timeout_s * 1000))
    if seed is not None:
        try:
            s.set('random_seed', int(seed))
        except Exception:
            pass
    t = time.time()
    r = s.check()
    dt = time.time() - t
    st = str(r)
    return st, (s.model() if st == 'sat' else None), dt


def formula_size(s):
    try:
        return sum(len(a.sexpr()) for a in s.assertions())
    except Exception:
        return 1


def model_ints(m, vars_):
    """z3 model -> {name: python int/Fraction/bool}"""
    import fractions
    import z3
    out = {}
    for v in vars_:
        val = m.eval(v, model_completion=True)
        if z3.is_int_value(val):
            out[str(v)] = val.as_long()
        elif z3.is_rational_value(val):
            out[str(v)] = fractions.Fraction(val.numerator_as_long(), val.denominator_as_long())
        elif z3.is_true(val) or z3.is_false(val):
            out[str(v)] = z3.is_true(val)
        elif z3.is_bv_value(val):
            out[str(v)] = val.as_signed_long()
        else:
            out[str(v)] = str(val)
    return out
