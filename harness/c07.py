"""C07 - the Hilbert curve mapping is a locality-preserving bijection.

Every function of spatialindex/hilbert_curve.py is executed over 64-bit bit-vectors (numba int64 semantics); loop
trip counts are concrete for concrete (p, n), the data dependent `if coord[i] & Q` is merged.
"""
import time

import numpy as np
import z3

from pysym import values
from pysym.core import Interp
from pysym.values import INTDOM, SInt

from .framework import formula_size, model_ints, z3_check

HC = 'spatialpandas.spatialindex.hilbert_curve'
W = 64


def mk():
    INTDOM['mode'] = 'bv'
    values.set_mul_mode('exact')
    return Interp()


def d_from_c(it, p, coord):
    arr = np.empty(len(coord), dtype=object)
    for i, c in enumerate(coord):
        arr[i] = c if isinstance(c, SInt) else SInt(c)
    it.sdtype[id(arr)] = (arr, np.dtype(np.int64))
    return it.call(it.func(HC, 'distance_from_coordinate'), [p, arr])


def c_from_d(it, p, n, h):
    return it.call(it.func(HC, 'coordinate_from_distance'), [p, n, h if isinstance(h, SInt) else SInt(h)])


def tv(x):
    return SInt.tv(x)


def windowed(name, width, lo, w, pattern):
    """value of `width` bits: bits [lo, lo+w) symbolic, the others taken from the concrete `pattern`"""
    if w >= width:
        v = z3.BitVec(name, W)
        return v, [v], [z3.ULT(v, z3.BitVecVal(1 << width, W))] if width < W else []
    sym = z3.BitVec(name, w)
    const = pattern & ((1 << width) - 1)
    parts = []
    if W - (lo + w) > 0:
        parts.append(z3.BitVecVal((const >> (lo + w)), W - (lo + w)))
    parts.append(sym)
    if lo > 0:
        parts.append(z3.BitVecVal(const & ((1 << lo) - 1), lo))
    term = z3.Concat(*parts) if len(parts) > 1 else parts[0]
    return term, [sym], []


def pattern_bits(kind, width, seed):
    import random
    if kind == 'zeros':
        return 0
    if kind == 'ones':
        return (1 << width) - 1
    if kind == 'alt':
        return int('01' * 32, 2) & ((1 << width) - 1)
    return random.Random(seed).getrandbits(width)


def relation(rel, p, n, window=None, pattern=('zeros', 0), timeout=300, seed=0):
    """rel in R1 (c->h->c), R2 (h->c->h), R3 (adjacency), R4d, R4c (refinement p -> p+1)"""
    t0 = time.time()
    it = mk()
    s = z3.SolverFor('QF_BV')
    allv = []
    pk, ps = pattern

    def coords(width, tag='c'):
        out = []
        for i in range(n):
            if window is None:
                v = z3.BitVec(f'{tag}{i}', W)
                allv.append(v)
                s.add(z3.ULT(v, z3.BitVecVal(1 << width, W)))
                out.append(v)
            else:
                lo, w = window
                term, vs, cons = windowed(f'{tag}{i}', width, min(lo, max(width - w, 0)), w, pattern_bits(pk, width, ps + i))
                allv.extend(vs)
                s.add(*cons)
                out.append(term)
        return out

    def dist(width, tag='h'):
        if window is None:
            v = z3.BitVec(tag, W)
            allv.append(v)
            s.add(z3.ULT(v, z3.BitVecVal(1 << width, W)))
            return v
        lo, w = window
        term, vs, cons = windowed(tag, width, min(n * lo, max(width - n * w, 0)), n * w, pattern_bits(pk, width, ps))
        allv.extend(vs)
        s.add(*cons)
        return term

    if rel == 'R1':
        cs = coords(p)
        h = d_from_c(it, p, [SInt(c) for c in cs])
        back = c_from_d(it, p, n, h)
        s.add(z3.Or(*[tv(back[i]) != cs[i] for i in range(n)], tv(h) < 0, z3.UGE(tv(h), z3.BitVecVal(1 << (n * p), W))))
        show = {'h': tv(h)}
    elif rel == 'R2':
        hv = dist(n * p)
        co = c_from_d(it, p, n, SInt(hv))
        h2 = d_from_c(it, p, list(co))
        s.add(z3.Or(tv(h2) != hv, *[z3.Or(tv(c) < 0, z3.UGE(tv(c), z3.BitVecVal(1 << p, W))) for c in co]))
        show = {f'c{i}': tv(c) for i, c in enumerate(co)}
    elif rel == 'R3':
        hv = dist(n * p)
        s.add(hv != z3.BitVecVal((1 << (n * p)) - 1, W))
        ca = c_from_d(it, p, n, SInt(hv))
        cb = c_from_d(it, p, n, SInt(hv + 1))
        diffs = [tv(cb[i]) - tv(ca[i]) for i in range(n)]
        exactly = z3.Or(*[z3.And(z3.Or(diffs[i] == 1, diffs[i] == -1), *[diffs[j] == 0 for j in range(n) if j != i]) for i in range(n)])
        s.add(z3.Not(exactly))
        show = {}
    elif rel == 'R4d':
        cs = coords(p + 1)
        hp1 = d_from_c(it, p + 1, [SInt(c) for c in cs])
        hp = d_from_c(it, p, [SInt(z3.LShR(c, 1)) for c in cs])
        s.add((tv(hp1) >> n) != tv(hp))
        show = {'h_p+1': tv(hp1), 'h_p': tv(hp)}
    elif rel == 'R4c':
        hv = dist(n * (p + 1))
        cp1 = c_from_d(it, p + 1, n, SInt(hv))
        cp = c_from_d(it, p, n, SInt(z3.LShR(hv, n)))
        s.add(z3.Or(*[(tv(cp1[i]) >> 1) != tv(cp[i]) for i in range(n)]))
        show = {}
    else:
        return {'status': 'error', 'detail': 'unknown relation ' + rel}
    symex = time.time() - t0
    st, m, dt = z3_check(s, timeout, seed)
    out = {'status': st, 'solver_s': round(dt, 3), 'formula_size': formula_size(s), 'encoded': it.encoded, 'symex_s': round(symex, 2)}
    if m is not None:
        out['model'] = model_ints(m, allv)
        out['terms'] = {k: m.eval(v, model_completion=True).as_signed_long() for k, v in show.items()}
        # concrete inputs of the relation, evaluated from the (possibly windowed) terms
        if rel in ('R1', 'R4d'):
            out['inputs'] = {'c': [m.eval(c, model_completion=True).as_long() for c in cs]}
        else:
            out['inputs'] = {'h': m.eval(hv, model_completion=True).as_long()}
    return out


def vectorised(p, n, rows=3, timeout=300, seed=0, dtype='int64'):
    """R6: distances_from_coordinates / coordinates_from_distances == row-wise scalar functions on symbolic rows;
    the caller's coordinate array is not modified"""
    t0 = time.time()
    it = mk()
    s = z3.SolverFor('QF_BV')
    cs = [[z3.BitVec(f'c{r}_{i}', W) for i in range(n)] for r in range(rows)]
    allv = [c for row in cs for c in row]
    for c in allv:
        s.add(z3.ULT(c, z3.BitVecVal(1 << p, W)))
    arr = np.empty((rows, n), dtype=object)
    for r in range(rows):
        for i in range(n):
            arr[r, i] = SInt(cs[r][i])
    it.sdtype[id(arr)] = (arr, np.dtype(dtype))
    res = it.call(it.func(HC, 'distances_from_coordinates'), [p, arr])
    it2 = mk()
    bad = []
    for r in range(rows):
        hr = d_from_c(it2, p, [SInt(c) for c in cs[r]])
        bad.append(tv(res[r]) != tv(hr))
        for i in range(n):
            bad.append(tv(arr[r, i]) != cs[r][i])      # input unchanged
    hs = [z3.BitVec(f'h{r}', W) for r in range(rows)]
    for h in hs:
        s.add(z3.ULT(h, z3.BitVecVal(1 << (n * p), W)))
    allv += hs
    harr = np.empty(rows, dtype=object)
    for r in range(rows):
        harr[r] = SInt(hs[r])
    cres = it.call(it.func(HC, 'coordinates_from_distances'), [p, n, harr])
    for r in range(rows):
        cr_ = c_from_d(it2, p, n, SInt(hs[r]))
        for i in range(n):
            bad.append(tv(cres[r, i]) != tv(cr_[i]))
    s.add(z3.Or(*bad))
    symex = time.time() - t0
    st, m, dt = z3_check(s, timeout, seed)
    enc = dict(it.encoded)
    enc.update(it2.encoded)
    out = {'status': st, 'solver_s': round(dt, 3), 'formula_size': formula_size(s), 'encoded': enc, 'symex_s': round(symex, 2)}
    if m is not None:
        out['model'] = model_ints(m, allv)
        out['inputs'] = {'coords': [[m.eval(c, model_completion=True).as_long() for c in row] for row in cs],
                         'hs': [m.eval(h, model_completion=True).as_long() for h in hs]}
    return out


def endpoints(p, n):
    """R5 (concrete): c(0) = 0..0 and, for n = 2, c(4^p - 1) = (2^p - 1, 0); executed by the interpreter"""
    it = mk()
    c0 = c_from_d(it, p, n, SInt(z3.BitVecVal(0, W)))
    cl = c_from_d(it, p, n, SInt(z3.BitVecVal((1 << (n * p)) - 1, W)))
    v0 = [z3.simplify(tv(c)).as_signed_long() for c in c0]
    vl = [z3.simplify(tv(c)).as_signed_long() for c in cl]
    ok = all(v == 0 for v in v0) and (n != 2 or vl == [(1 << p) - 1, 0])
    # and the other direction: d(0..0) = 0 and, for n = 2, d(2^p - 1, 0) = 4^p - 1
    bv = lambda v: SInt(z3.BitVecVal(v, W))  # noqa: E731
    d0 = z3.simplify(tv(d_from_c(it, p, [bv(0)] * n))).as_signed_long()
    dl = z3.simplify(tv(d_from_c(it, p, [bv((1 << p) - 1)] + [bv(0)] * (n - 1)))).as_signed_long() if n * p <= 62 else None
    ok = ok and d0 == 0 and (n != 2 or dl == (1 << (n * p)) - 1) and (n != 1 or dl is None or dl == (1 << p) - 1)
    return {'status': 'holds' if ok else 'violated', 'encoded': it.encoded, 'formula_size': 1, 'queries': 1,
            'inputs': {'first': v0, 'last': vl, 'd_first': d0, 'd_last': dl}, 'solver_s': 0.0}


# ------------------------------------------------------------------------------------------------ replay (real jitted code)
def real_d(p, c):
    from spatialpandas.spatialindex.hilbert_curve import distance_from_coordinate
    return int(distance_from_coordinate(p, np.array(c, dtype=np.int64)))


def real_c(p, n, h):
    from spatialpandas.spatialindex.hilbert_curve import coordinate_from_distance
    return [int(x) for x in coordinate_from_distance(p, n, np.int64(h))]


def replay_relation(rel, p, n, inputs):
    """-> (reproduced?, witness)"""
    if rel == 'R1':
        c = inputs['c']
        h = real_d(p, c)
        back = real_c(p, n, h)
        bad = back != list(c) or not (0 <= h < (1 << (n * p)))
        return bad, {'relation': 'c->h->c', 'p': p, 'n': n, 'c': c, 'h': h, 'back': back}
    if rel == 'R2':
        h = inputs['h']
        c = real_c(p, n, h)
        h2 = real_d(p, c)
        bad = h2 != h or not all(0 <= x < (1 << p) for x in c)
        return bad, {'relation': 'h->c->h', 'p': p, 'n': n, 'h': h, 'c': c, 'back': h2}
    if rel == 'R3':
        h = inputs['h']
        a, b = real_c(p, n, h), real_c(p, n, h + 1)
        d = [y - x for x, y in zip(a, b)]
        bad = sorted(abs(x) for x in d) != [0] * (n - 1) + [1]
        return bad, {'relation': 'adjacency', 'p': p, 'n': n, 'h': h, 'c(h)': a, 'c(h+1)': b}
    if rel == 'R4d':
        c = inputs['c']
        hp1 = real_d(p + 1, c)
        hp = real_d(p, [x >> 1 for x in c])
        return (hp1 >> n) != hp, {'relation': 'refinement(distance)', 'p': p, 'n': n, 'c': c, 'd_p+1': hp1, 'd_p(parent)': hp}
    if rel == 'R4c':
        h = inputs['h']
        cp1 = real_c(p + 1, n, h)
        cp = real_c(p, n, h >> n)
        return [x >> 1 for x in cp1] != cp, {'relation': 'refinement(coordinate)', 'p': p, 'n': n, 'h': h, 'c_p+1': cp1, 'c_p(parent)': cp}
    return False, {}


def replay_vectorised(p, n, inputs, dtype='int64'):
    from spatialpandas.spatialindex.hilbert_curve import coordinates_from_distances, distances_from_coordinates
    coords = np.array(inputs['coords'], dtype=np.dtype(dtype))
    keep = coords.copy()
    got = [int(x) for x in distances_from_coordinates(p, coords)]
    want = [real_d(p, [int(x) for x in r]) for r in keep]
    hs = np.array(inputs['hs'], dtype=np.int64)
    gotc = [[int(x) for x in r] for r in coordinates_from_distances(p, n, hs)]
    wantc = [real_c(p, n, int(h)) for h in hs]
    bad = got != want or not np.array_equal(coords, keep) or gotc != wantc
    return bad, {'relation': 'vectorised == scalar', 'p': p, 'n': n, 'coords': keep.tolist(), 'got': got, 'scalar': want,
                 'input_after': coords.tolist(), 'hs': hs.tolist(), 'got_coords': gotc, 'scalar_coords': wantc}
