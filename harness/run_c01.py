from . import c01, wrappers


def run(check, pool, Task):
    from . import validate
    validate.apply(check, ['segments', 'pip', 'box_kernels', 'bounds_kernels'])
    c01.run_kernels(check, pool, Task)
    wrappers.run_c01(check, pool, Task)


def replay(path):
    import json
    w = json.load(open(path))['witness']
    print(json.dumps(w, indent=1)[:3000])
    return 0
