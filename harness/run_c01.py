from . import c01


def run(check, pool, Task):
    c01.run_kernels(check, pool, Task)


def replay(path):
    import json
    w = json.load(open(path))['witness']
    print(json.dumps(w, indent=1)[:2000])
    return 0
