"""C07 driver: bit-vector queries per (relation, p, n), windowed queries for large p, vectorised entry points."""
from . import c07


def plan(tier, seed):
    Q = []   # (kind, rel, p, n, kwargs)
    thorough = tier == 'thorough'
    full2 = range(1, 9)
    for p in full2:
        for rel in ('R1', 'R2', 'R3', 'R4d', 'R4c'):
            Q.append(('rel', rel, p, 2, {}))
    for p in ((9, 10) if not thorough else (9, 10, 11, 12)):
        for rel in ('R1', 'R3'):
            Q.append(('rel', rel, p, 2, {}))
    if thorough:
        Q += [('rel', 'R2', 9, 2, {}), ('rel', 'R2', 10, 2, {}), ('rel', 'R1', 14, 2, {}), ('rel', 'R3', 14, 2, {})]
    for p in range(9, 31):
        Q.append(('rel', 'R4c', p, 2, {}))
    for p in range(9, 13 if not thorough else 17):
        Q.append(('rel', 'R4d', p, 2, {}))
    # windowed queries (bottom window for the relations through distance_from_coordinate, any position for adjacency)
    w = 12 if thorough else 10
    pats = [('zeros', 0), ('ones', 0), ('alt', 0), ('rand', seed), ('rand', seed + 1)] + ([('rand', seed + 2), ('rand', seed + 3)] if thorough else [])
    for p in (13, 16, 20, 24, 28, 31):
        for pat in pats:
            Q.append(('rel', 'R1', p, 2, {'window': (0, w), 'pattern': pat}))
    for p in (15, 20, 25, 30):
        for pat in pats:
            Q.append(('rel', 'R4d', p, 2, {'window': (0, w), 'pattern': pat}))
    for p in (16, 24, 31):
        for lo in (0, p // 3, p - w):
            for pat in pats[3:]:
                Q.append(('rel', 'R3', p, 2, {'window': (lo, w), 'pattern': pat}))
    # n = 1 at large orders: bottom windows (the property covers np <= 62)
    for p in (34, 45, 62):
        for pat in pats[:4]:
            Q.append(('rel', 'R1', p, 1, {'window': (0, w), 'pattern': pat}))
            Q.append(('rel', 'R3', p, 1, {'window': (0, w), 'pattern': pat}))
    # n = 1 and n = 3
    for p in ((1, 2, 3, 8, 12) if not thorough else (1, 2, 3, 5, 8, 12, 16, 20)):
        for rel in ('R1', 'R2', 'R3', 'R4d', 'R4c'):
            Q.append(('rel', rel, p, 1, {}))
    for p in (16, 20, 31, 45, 61):
        for rel in ('R4d', 'R4c'):
            Q.append(('rel', rel, p, 1, {}))
    for p in (range(1, 6) if not thorough else range(1, 8)):
        for rel in ('R1', 'R2', 'R3', 'R4d', 'R4c'):
            Q.append(('rel', rel, p, 3, {}))
    for p in range(6, 20):
        Q.append(('rel', 'R4c', p, 3, {}))
        if p <= (10 if not thorough else 14):
            Q.append(('rel', 'R4d', p, 3, {}))
    # vectorised entry points, end points
    for (p, n) in [(1, 2), (2, 2), (4, 2), (2, 3), (3, 1)] + ([(6, 2), (3, 3)] if thorough else []):
        Q.append(('vec', None, p, n, {}))
    for (p, n, dt) in [(9, 2, 'int16'), (8, 2, 'int16'), (11, 3, 'int32')] + ([(15, 2, 'uint16'), (16, 2, 'int32')] if thorough else []):
        Q.append(('vec', None, p, n, {'dtype': dt}))
    for n in (1, 2, 3):
        for p in range(1, (62 // n) + 1):
            if n == 2 and p > 31:
                continue
            Q.append(('end', None, p, n, {}))
    return Q


def run(check, pool, Task):
    from . import validate
    validate.apply(check, ['hilbert'])
    Q = plan(check.tier, check.seed)
    cap = 900 if check.tier == 'thorough' else 300
    check.bounds.update({
        'full-width symbolic (all cells / all distances)': 'n=2: R1,R3 p<=10 (12-14 thorough), R2 p<=8 (10), R4d p<=12 (16), R4c p<=30; '
                                                          'n=1: p<=12 (20) + refinement at p in {16,20,31,45,61}; n=3: p<=5 (7) + refinement p<=19',
        'windowed (p up to 31)': 'the low 10 (12) bits of every coordinate symbolic, the remaining bits fixed to the patterns zeros/ones/alternating/'
                                 'VERIF_SEED-random; adjacency also with the window in the middle and at the top',
        'outside': 'full-width round trips for p > 14 (n=2); h->c->h with a window; everything about the bits above the window other than the listed patterns'})
    check.assumptions += ['int64 wrap-around bit-vector semantics for every integer', 'c in [0, 2^p)^n, h in [0, 2^(np))',
                          'np <= 62 as in the property']
    tasks = []
    for kind, rel, p, n, kw in Q:
        if kind == 'rel':
            nm = f"{rel} p={p} n={n}" + (f" window={kw['window']} pattern={kw['pattern']}" if kw else '')
            tasks.append(Task(nm, c07.relation, (rel, p, n), dict(kw, timeout=cap, seed=check.seed), timeout=cap + 60,
                              meta={'kind': kind, 'rel': rel, 'p': p, 'n': n, **{k: list(v) for k, v in kw.items()}}))
        elif kind == 'vec':
            dt = kw.get('dtype', 'int64')
            rows = 3 if dt == 'int64' else 1
            tasks.append(Task(f"vectorised==scalar p={p} n={n} rows={rows} coordinate dtype={dt}", c07.vectorised, (p, n), {'timeout': cap, 'dtype': dt, 'rows': rows}, timeout=cap + 60,
                              meta={'kind': kind, 'p': p, 'n': n, 'dtype': dt}))
        else:
            tasks.append(Task(f"endpoints p={p} n={n}", c07.endpoints, (p, n), timeout=120, meta={'kind': kind, 'p': p, 'n': n}))
    # long ones first
    tasks.sort(key=lambda t: -(t.meta['p'] if 'window' not in t.meta else 0))
    res = pool(tasks)
    for t in tasks:
        r = res.get(t.name, {'status': 'error', 'detail': 'no result'})
        m = t.meta
        if r['status'] in ('sat', 'violated'):
            try:
                if m['kind'] == 'rel':
                    bad, wit = c07.replay_relation(m['rel'], m['p'], m['n'], r['inputs'])
                elif m['kind'] == 'vec':
                    bad, wit = c07.replay_vectorised(m['p'], m['n'], r['inputs'], m.get('dtype', 'int64'))
                else:
                    first = c07.real_c(m['p'], m['n'], 0)
                    last = c07.real_c(m['p'], m['n'], (1 << (m['n'] * m['p'])) - 1)
                    bad = any(first) or (m['n'] == 2 and last != [(1 << m['p']) - 1, 0])
                    d_first = c07.real_d(m['p'], [0] * m['n'])
                    d_last = c07.real_d(m['p'], [(1 << m['p']) - 1] + [0] * (m['n'] - 1)) if m['n'] * m['p'] <= 62 else None
                    bad = bad or d_first != 0 or (m['n'] in (1, 2) and d_last is not None and d_last != (1 << (m['n'] * m['p'])) - 1)
                    wit = {'relation': 'endpoints', 'p': m['p'], 'n': m['n'], 'first': first, 'last': last, 'd_first': d_first, 'd_last': d_last}
            except Exception as e:  # noqa: BLE001
                bad, wit = False, {'exception': repr(e)}
            if bad:
                v = check.violation(f"C07:{wit.get('relation')}", f"{wit}", wit)
                check.record(t.name, dict(r, status='known-finding' if v == 'known' else 'violated'), 'bv-query', m)
            else:
                check.record(t.name, dict(r, status='inconclusive', detail=f'solver counterexample did not reproduce on the jitted code: {wit}'), 'bv-query', m)
        else:
            check.record(t.name, r, 'bv-query', m)


def replay(path):
    import json
    w = json.load(open(path))['witness']
    print(w)
    return 0
