"""C03 - R-tree queries return exactly the intersecting / covered boxes.

Fork-mode symbolic execution of the real HilbertRtree wrappers, the jitted build and the jitclass query methods:
box coordinates are Real symbols (the code only compares them), each row has a Bool 'is NaN', the curve order is
replaced by an arbitrary permutation.  Every feasible path is explored; per path the concrete result index lists
are checked against the declarative oracle under the path condition.
"""
import itertools
import time

import numpy as np
import z3

from pysym import values
from pysym.core import Explorer, Infeasible, Interp, SelfObj, Stub
from pysym.values import Num, PathRaise, tz

RT = 'spatialpandas.spatialindex.rtree'


def scaled_keys(inv, bounds, p):
    """the curve-order stub: distances realising the permutation, spread over the whole range 0 .. 2^(d p) - 1 a Hilbert curve of
    order p can return (so that arithmetic on the keys meets the magnitudes the real distances have)"""
    n, d = bounds.shape[0], max(1, bounds.shape[1] // 2)
    top = (1 << min(d * int(p), 62)) - 1
    return inv[:n].astype(np.int64) * np.int64(top // max(n - 1, 1))


def make_interp(perm):
    it = Interp()
    mod = it.module(RT)
    inv = np.empty(len(perm), dtype=np.int64)
    for j, k in enumerate(perm):
        inv[k] = j
    # curve order stub: argsort(distances) == perm
    it.stubs['_distances_from_bounds'] = Stub(lambda bounds, tb, p: scaled_keys(inv, bounds, p), '_distances_from_bounds -> arbitrary permutation, spread over 0..2^(d p)-1')
    def construct(*args):
        # the jitclass constructor: an interpreted instance whose fields are set by the class's own __init__
        obj = SelfObj('_NumbaRtree', mod)
        it.call(it.func(RT, '_NumbaRtree.__init__'), [obj, *args])
        return obj
    it.stubs['_NumbaRtree'] = Stub(construct, 'jitclass constructor -> interpreted instance (its __init__ is interpreted)')
    return it, mod


def explore(n, page_size, dims=2, nan_rows=True, perm=None, mode='covers', max_paths=60000, budget_s=None, second_query=False, p=10):
    """-> result dict; status holds / violated (+model) / unknown"""
    values.set_mul_mode('exact')
    t0 = time.time()
    perm = list(perm) if perm is not None else list(range(n))
    it, mod = make_interp(perm)
    from spatialpandas.spatialindex.rtree import HilbertRtree
    lo = [[z3.Real(f'lo{i}_{d}') for d in range(dims)] for i in range(n)]
    hi = [[z3.Real(f'hi{i}_{d}') for d in range(dims)] for i in range(n)]
    nan = [z3.Bool(f'nan{i}') if nan_rows else False for i in range(n)]
    q = [z3.Real(f'q{j}') for j in range(2 * dims)]
    allv = [v for r in lo for v in r] + [v for r in hi for v in r] + q + [b for b in nan if b is not False]
    assumptions = [lo[i][d] <= hi[i][d] for i in range(n) for d in range(dims)] + [q[d] <= q[d + dims] for d in range(dims)]
    # a second query on the same index object that covers every box: results handed out earlier must stay intact
    q2 = [z3.Real(f'qq{j}') for j in range(2 * dims)]
    assumptions += [q2[d] <= lo[i][d] for i in range(n) for d in range(dims)] + [q2[d + dims] >= hi[i][d] for i in range(n) for d in range(dims)]
    assumptions += [q2[d] <= q2[d + dims] for d in range(dims)]
    ex = Explorer(assumptions, max_paths=max_paths)
    it.explorer = ex
    init = it.func(RT, 'HilbertRtree.__init__')
    outcomes = {'nonempty_result': 0, 'empty_result': 0}
    violation = None
    nq = 0
    while ex.work:
        if ex.paths >= max_paths or (budget_s and time.time() - t0 > budget_s):
            return {'status': 'unknown', 'detail': f'path budget exhausted after {ex.paths} paths', 'paths': ex.paths,
                    'queries': ex.checks + nq, 'solver_s': round(ex.solver_s, 2), 'encoded': it.encoded}
        script = ex.work.pop()
        ex.start(script)
        bounds = np.empty((n, 2 * dims), dtype=object)
        for i in range(n):
            for d in range(dims):
                bounds[i, d] = Num(lo[i][d], nan[i])
                bounds[i, d + dims] = Num(hi[i][d], nan[i])
        try:
            tree = HilbertRtree.__new__(HilbertRtree)
            it.call(init, [tree, bounds], {'p': p, 'page_size': page_size})
            qn = tuple(Num(v) for v in q)
            q2n = tuple(Num(v) for v in q2)
            if mode == 'covers':
                r = it.call(it.getattr_(tree, 'covers_overlaps', None, True), [qn])
                r2 = it.call(it.getattr_(tree, 'covers_overlaps', None, True), [q2n]) if second_query else ([], [])
                cov = [int(x) for x in r[0]]          # read AFTER the second query
                ov = [int(x) for x in r[1]]
                second = sorted(int(x) for x in r2[0]) + sorted(int(x) for x in r2[1])
            else:
                r = it.call(it.getattr_(tree, 'intersects', None, True), [qn])
                r2 = it.call(it.getattr_(tree, 'intersects', None, True), [q2n]) if second_query else []
                cov = [int(x) for x in r]
                ov = []
                second = sorted(int(x) for x in r2)
            tb = it.getattr_(tree, 'total_bounds', None, True)
            empty = it.getattr_(tree, 'empty', None, True)
        except Infeasible:
            continue
        except PathRaise as e:
            # building or querying the index raises on a valid input: a violation if the path is feasible
            ex.paths += 1
            ex.solver.push()
            ex.solver.add(*ex.pc)
            r = str(ex.solver.check())
            nq += 1
            if r == 'sat':
                from .framework import model_ints
                violation = {'model': model_ints(ex.solver.model(), allv), 'covers': [], 'overlaps': [], 'script_len': len(script),
                             'total_bounds': [], 'raised': f'{getattr(e.exc, "__name__", e.exc)}: {e.text}'}
                ex.solver.pop()
                break
            ex.solver.pop()
            if r != 'unsat':
                return {'status': 'unknown', 'detail': 'solver unknown on the feasibility of a raising path', 'paths': ex.paths}
            continue
        ex.paths += 1
        outcomes['nonempty_result' if (cov or ov) else 'empty_result'] += 1
        conds = []
        for i in range(n):
            nn = z3.Not(nan[i]) if nan_rows else z3.BoolVal(True)
            overlap = z3.And(nn, *[z3.And(hi[i][d] >= q[d], lo[i][d] <= q[d + dims]) for d in range(dims)])
            inside = z3.And(nn, *[z3.And(lo[i][d] >= q[d], hi[i][d] <= q[d + dims]) for d in range(dims)])
            if mode == 'covers':
                conds.append(z3.And(z3.BoolVal(cov.count(i) == 1) == inside, z3.BoolVal(cov.count(i) <= 1),
                                    z3.BoolVal(ov.count(i) == 1) == z3.And(overlap, z3.Not(inside)), z3.BoolVal(ov.count(i) <= 1)))
            else:
                conds.append(z3.And(z3.BoolVal(cov.count(i) == 1) == overlap, z3.BoolVal(cov.count(i) <= 1)))
        conds.append(z3.BoolVal(all(0 <= x < n for x in cov + ov)))
        # the covering second query returns exactly the rows with defined boxes
        for i in range(n if second_query else 0):
            conds.append(z3.BoolVal(second.count(i) == 1) == (z3.Not(nan[i]) if nan_rows else z3.BoolVal(True)))
        # total_bounds: union of the non-NaN boxes, NaN when there is none
        # `empty`: True without rows, False as soon as one row has defined bounds (all-NaN input: not constrained)
        if n == 0:
            conds.append(z3.BoolVal(bool(empty) is True))
        else:
            conds.append(z3.Implies(z3.Or(*[(z3.Not(nan[i]) if nan_rows else z3.BoolVal(True)) for i in range(n)]), z3.BoolVal(bool(empty) is False)))
        if n:
            tbn = [Num.lift(x) for x in tb]
            for d in range(dims):
                for (col, rows, is_min) in ((d, lo, True), (d + dims, hi, False)):
                    t = tbn[col]
                    live = [z3.Not(nan[i]) if nan_rows else z3.BoolVal(True) for i in range(n)]
                    anylive = z3.Or(*live)
                    tnan = tz(values.wrapb(t.nan))
                    bound_all = z3.And(*[z3.Implies(live[i], (t.v <= rows[i][d]) if is_min else (t.v >= rows[i][d])) for i in range(n)])
                    attained = z3.Or(*[z3.And(live[i], t.v == rows[i][d]) for i in range(n)])
                    conds.append(z3.If(anylive, z3.And(z3.Not(tnan), bound_all, attained), tnan))
        ex.solver.push()
        ex.solver.add(*ex.pc)
        ex.solver.add(z3.Not(z3.And(*conds)))
        ts = time.time()
        r = str(ex.solver.check())
        ex.solver_s += time.time() - ts
        nq += 1
        if r == 'sat':
            m = ex.solver.model()
            from .framework import model_ints
            violation = {'model': model_ints(m, allv), 'covers': cov, 'overlaps': ov, 'script_len': len(script),
                         'total_bounds': [str(x) for x in tb]}
            ex.solver.pop()
            break
        ex.solver.pop()
        if r != 'unsat':
            return {'status': 'unknown', 'detail': 'solver unknown on a path obligation', 'paths': ex.paths}
    out = {'paths': ex.paths, 'queries': ex.checks + nq, 'solver_s': round(ex.solver_s, 2), 'encoded': it.encoded,
           'formula_size': ex.paths, 'outcomes': outcomes, 'symex_s': round(time.time() - t0 - ex.solver_s, 2)}
    if violation:
        out.update(status='violated', **violation)
        return out
    if n > 0 and (outcomes['nonempty_result'] == 0 or outcomes['empty_result'] == 0):
        out.update(status='error', detail=f'vacuity: outcomes {outcomes}')
        return out
    out['status'] = 'holds'
    return out


# ------------------------------------------------------------------------------------------------ replay
def rank_map(model, names):
    """order-isomorphic map of the model's rational values onto small integers (comparisons are preserved)"""
    vals = sorted({model[k] for k in names})
    return {v: float(i) for i, v in enumerate(vals)}


def concrete_boxes(model, n, dims, nan_rows):
    names = [f'lo{i}_{d}' for i in range(n) for d in range(dims)] + [f'hi{i}_{d}' for i in range(n) for d in range(dims)] + \
            [f'q{j}' for j in range(2 * dims)]
    rm = rank_map(model, names)
    b = np.zeros((n, 2 * dims))
    for i in range(n):
        isnan = bool(model.get(f'nan{i}', False)) if nan_rows else False
        for d in range(dims):
            b[i, d] = np.nan if isnan else rm[model[f'lo{i}_{d}']]
            b[i, d + dims] = np.nan if isnan else rm[model[f'hi{i}_{d}']]
    q = tuple(rm[model[f'q{j}']] for j in range(2 * dims))
    return b, q


def oracle_x(b, q, dims):
    inter, cov, ov = [], [], []
    for i in range(b.shape[0]):
        if np.isnan(b[i]).any():
            continue
        overlap = all(b[i, d + dims] >= q[d] and b[i, d] <= q[d + dims] for d in range(dims))
        inside = all(b[i, d] >= q[d] and b[i, d + dims] <= q[d + dims] for d in range(dims))
        if overlap:
            inter.append(i)
            (cov if inside else ov).append(i)
    live = [i for i in range(b.shape[0]) if not np.isnan(b[i]).any()]
    if live:
        tb = tuple([float(np.min(b[live, d])) for d in range(dims)] + [float(np.max(b[live, d + dims])) for d in range(dims)])
    else:
        tb = tuple([float('nan')] * (2 * dims))
    return inter, cov, ov, tb


def same_tb(a, b):
    return len(a) == len(b) and all((x == y) or (x != x and y != y) for x, y in zip(a, b))


def real_tree(b, page_size, perm=None, p=10):
    """real HilbertRtree; with perm: build with the repository's own build function executed in python mode
    (py_func) with the curve order forced, queries on the real jitclass"""
    import spatialpandas.spatialindex.rtree as R
    if perm is None:
        return R.HilbertRtree(b, p=p, page_size=page_size)
    inv = np.empty(len(perm), dtype=np.int64)
    for j, k in enumerate(perm):
        inv[k] = j
    saved = R._distances_from_bounds
    R._distances_from_bounds = lambda bounds, tb, p: scaled_keys(inv, bounds, p)
    try:
        t = R.HilbertRtree.__new__(R.HilbertRtree)
        t._page_size = max(1, page_size)
        t._numba_rtree = None
        t._sorted_bounds, t._keys, t._bounds_tree = R.HilbertRtree._build_hilbert_rtree.py_func(b.astype('float64'), p, t._page_size)
        t._keys = np.asarray(t._keys, dtype=np.int64)
    finally:
        R._distances_from_bounds = saved
    return t


def replay(res, n, page_size, dims, nan_rows, perm, mode, p=10):
    """-> (reproduced?, witness dict, how)"""
    b, q = concrete_boxes(res['model'], n, dims, nan_rows)
    inter, cov, ov, tb = oracle_x(b, q, dims)
    attempts = [('public API p=%d' % pp, None, pp) for pp in dict.fromkeys((p, 10, 1, 3))] + [('forced curve order (py_func build) p=%d' % p, perm, p)]
    for how, pm, p in attempts:
        try:
            t = real_tree(b, page_size, pm, p)
            live = b[~np.isnan(b).any(axis=1)] if b.size else b
            qall = tuple([float(np.min(live[:, d])) - 1 for d in range(dims)] + [float(np.max(live[:, d + dims])) + 1 for d in range(dims)]) if len(live) else q
            if mode == 'covers':
                c, o = t.covers_overlaps(q)
                t.covers_overlaps(qall)         # results handed out earlier must stay intact
                got = {'covers': sorted(int(x) for x in c), 'overlaps': sorted(int(x) for x in o)}
                want = {'covers': cov, 'overlaps': ov}
                dup = len(set(got['covers'])) != len(got['covers']) or len(set(got['overlaps'])) != len(got['overlaps'])
            else:
                r = t.intersects(q)
                t.intersects(qall)
                got = {'intersects': sorted(int(x) for x in r)}
                want = {'intersects': inter}
                dup = len(set(got['intersects'])) != len(got['intersects'])
            gtb = tuple(float(x) for x in t.total_bounds)
        except Exception as e:  # noqa: BLE001
            got, want, dup, gtb = {'exception': repr(e)}, {}, False, tb
        if got != want or dup or not same_tb(gtb, tb):
            wit = {'bounds': b.tolist(), 'query': q, 'page_size': page_size, 'dims': dims, 'mode': mode, 'how': how,
                   'perm': perm if pm is not None else None, 'got': got, 'expected': want, 'total_bounds_got': gtb, 'total_bounds_expected': tb}
            return True, wit
    return False, {'bounds': b.tolist(), 'query': q}


def classify(wit):
    b = np.array(wit['bounds'], dtype=float)
    if b.size and np.isnan(b).any():
        return 'C03:nan-row-present'
    return 'C03:finite-boxes'
