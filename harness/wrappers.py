"""Wrapper-level obligations on tagged arrays (C01, C02, C13, C14, C16, C17 share this engine).

For a real geometry array A of one of the seven kinds (coordinates = tags) and a derivation history d (slice, take,
mask, concat, copy, pickle ... executed natively by the real code), every quantity Q of the public array API is
evaluated symbolically on d(A) by interpreting the repository's wrapper + kernel source, and the solver checks, for
all coordinate values, that Q(d(A))[j] equals the *canonical* value of element j: the same kernel run on a fresh
flat copy of that element alone (or the declarative oracle where the wrapper itself is the implementation).
Because the canonical value depends on the element only, this gives at once: forms agree (C01/C02), results do not
depend on buffer offsets or history (C16), inert rows report False/NaN and do not influence other rows (C17).
"""
import pickle
import time
import traceback

import numpy as np
import z3

from pysym import values
from pysym.core import Interp, Stub
from pysym.values import NeedConcrete, Num, OutOfBounds, PathRaise, SBool, Unsupported, tz, wrapb

from . import c13, c14
from . import tagged as T
from .framework import formula_size, model_ints, z3_check

ALG = 'spatialpandas.geometry._algorithms.intersection'
MEAS = 'spatialpandas.geometry._algorithms.measures'
PT = 'spatialpandas.geometry.point'

# ------------------------------------------------------------------------------------------------ structures
BASE = {
    'point': ['P', None, 'P', 'P'],
    'multipoint': [2, None, 0, 1, 3],
    'line': [3, None, 0, 2, 1],
    'ring': [4, None, 0, 3],
    'multiline': [[2, 3], None, [], [1], [2, 0]],
    'polygon': [[3, 3], None, [], [4], [3, 1]],
    'multipolygon': [[[3], [3, 3]], None, [], [[4]], [[1], [3]]],
}


def d_identity(a): return a
def d_slice1(a): return a[1:]
def d_slice13(a): return a[1:3]
def d_slice_of_slice(a): return a[1:][1:]
def d_step2(a): return a[::2]
def d_rev(a): return a[::-1]
def d_take(a): return a.take([2, 0, len(a) - 1])
def d_take_fill(a): return a.take([0, -1, 2], allow_fill=True)
def d_mask(a): return a[np.array([i % 2 == 1 or i == 0 for i in range(len(a))])]
def d_concat(a): return type(a)._concat_same_type([a[2:], a[:2]])
def d_copy(a): return a.copy()
def d_pickle(a): return pickle.loads(pickle.dumps(a))
def d_pickle_slice(a): return pickle.loads(pickle.dumps(a[1:]))[1:]
def d_take_concat(a): return type(a)._concat_same_type([a[1:], a]).take([0, len(a), 1])
def d_empty(a): return a[:0]
def d_neg(a): return a[-2:]


# (name, on array, on list of element ids)
DERIVS = {
    'identity': (d_identity, lambda l: l),
    'slice[1:]': (d_slice1, lambda l: l[1:]),
    'slice[1:3]': (d_slice13, lambda l: l[1:3]),
    'slice[1:][1:]': (d_slice_of_slice, lambda l: l[1:][1:]),
    'step[::2]': (d_step2, lambda l: l[::2]),
    'reverse[::-1]': (d_rev, lambda l: l[::-1]),
    'take[2,0,-1]': (d_take, lambda l: [l[2], l[0], l[-1]]),
    'take_fill[0,NA,2]': (d_take_fill, lambda l: [l[0], None, l[2]]),
    'mask': (d_mask, lambda l: [x for i, x in enumerate(l) if i % 2 == 1 or i == 0]),
    'concat[2:]+[:2]': (d_concat, lambda l: l[2:] + l[:2]),
    'copy': (d_copy, lambda l: l),
    'pickle': (d_pickle, lambda l: l),
    'pickle(slice)[1:]': (d_pickle_slice, lambda l: l[1:][1:]),
    'take(concat)': (d_take_concat, lambda l: [(l[1:] + l)[0], (l[1:] + l)[len(l)], (l[1:] + l)[1]]),
    'empty[:0]': (d_empty, lambda l: []),
    'slice[-2:]': (d_neg, lambda l: l[-2:]),
    'head[:2]': (lambda a: a[:2], lambda l: l[:2]),
}
DERIVS.update({
    'take[-2,-1]': (lambda a: a.take([-2, -1]), lambda l: [l[-2], l[-1]]),
    'take[-1,0,1]': (lambda a: a.take([-1, 0, 1]), lambda l: [l[-1], l[0], l[1]]),
    'take[1,2,3]': (lambda a: a.take([1, 2, 3]), lambda l: [l[1], l[2], l[3]]),
    'getitem[[-2,-1]]': (lambda a: a[[-2, -1]], lambda l: [l[-2], l[-1]]),
    'getitem[[1,2]]': (lambda a: a[np.array([1, 2])], lambda l: [l[1], l[2]]),
    'slice[::-2]': (lambda a: a[::-2], lambda l: l[::-2]),
    'slice[3:0:-1]': (lambda a: a[3:0:-1], lambda l: l[3:0:-1]),
    'slice[-3:-1]': (lambda a: a[-3:-1], lambda l: l[-3:-1]),
    'iter': (lambda a: type(a)(list(a), dtype=a.dtype), lambda l: l),
    'slice[3::-2]': (lambda a: a[3::-2], lambda l: l[3::-2]),
    'slice[4:0:-3]': (lambda a: a[4:0:-3], lambda l: l[4:0:-3]),
    'big:slice[::-2]': (lambda a: a[::-2], lambda l: l[::-2]),
    'big:slice[15:2:-4]': (lambda a: a[15:2:-4], lambda l: l[15:2:-4]),
    'slice[3:1]': (lambda a: a[3:1], lambda l: l[3:1]),
    'slice[-1:2]': (lambda a: a[-1:2], lambda l: l[-1:2]),
    'slice[1:4][-1:1]': (lambda a: a[1:4][-1:1], lambda l: l[1:4][-1:1]),
    # larger arrays: validity bitmaps longer than one byte, slices at byte-aligned and unaligned offsets
    'big:slice[8:]': (lambda a: a[8:], lambda l: l[8:]),
    'big:slice[3:][5:]': (lambda a: a[3:][5:], lambda l: l[3:][5:]),
    'big:slice[-10:]': (lambda a: a[-10:], lambda l: l[-10:]),
    'big:slice[16:]': (lambda a: a[16:], lambda l: l[16:]),
    'big:slice[7:15]': (lambda a: a[7:15], lambda l: l[7:15]),
    'big:pickle(slice[8:])': (lambda a: pickle.loads(pickle.dumps(a[8:])), lambda l: l[8:]),
    'big:take(8..12)': (lambda a: a.take([8, 9, 10, 11, 12]), lambda l: l[8:13]),
})
BIG = {
    'point': ['P', None, 'P', 'P', 'P', 'P', 'P', 'P', None, None, 'P', 'P', 'P', None, 'P', 'P', 'P', 'P'],
    'multipoint': [1, None, 1, 0, 1, 1, 1, 1, None, None, 2, 1, 1, None, 1, 1, 0, 1],
    'line': [2, None, 1, 0, 2, 1, 1, 2, None, None, 2, 1, 1, None, 2, 1, 0, 2],
    'polygon': [[3], None, [3], [], [3], [3], [3], [3], None, None, [3], [3], [3], None, [3], [3], [], [3]],
}
BIG_DERIVS = [k for k in DERIVS if k.startswith('big:')]
QUICK_DERIVS = ['identity', 'slice[1:]', 'slice[1:3]', 'head[:2]', 'take[2,0,-1]', 'take_fill[0,NA,2]', 'concat[2:]+[:2]', 'pickle(slice)[1:]', 'reverse[::-1]', 'empty[:0]']


# ------------------------------------------------------------------------------------------------ canonical values
def flat_of(pts_lists):
    flat = [v for pts in pts_lists for v in pts]
    arr = np.empty(2 * len(flat), dtype=object)
    for i, v in enumerate(flat):
        arr[2 * i], arr[2 * i + 1] = v
    offs = [0]
    for pts in pts_lists:
        offs.append(offs[-1] + 2 * len(pts))
    return arr, offs


def canon_intersects_bounds(it, kind, sym, box):
    if sym is None or not T.coords_of(kind, sym):
        return False            # missing or empty element: the property fixes the answer, no kernel involved
    x0, y0, x1, y1 = box
    if kind in ('point', 'multipoint'):
        lo_x, hi_x = values.py_min2(x0, x1), values.py_max2(x0, x1)
        lo_y, hi_y = values.py_min2(y0, y1), values.py_max2(y0, y1)
        pts = [sym] if kind == 'point' else sym
        return values.Or(*[values.And(lo_x <= p[0], p[0] <= hi_x, lo_y <= p[1], p[1] <= hi_y) for p in pts])
    result = it.np.zeros(1, dtype=np.bool_)
    u32 = lambda x: np.array(x, dtype=np.uint32)   # noqa: E731
    if kind in ('line', 'ring'):
        flat, offs = flat_of([sym])
        it.call(it.func(ALG, 'lines_intersect_bounds'), [x0, y0, x1, y1, flat, u32([0]), u32([offs[-1]]), result])
    elif kind == 'multiline':
        flat, offs = flat_of(sym)
        it.call(it.func(ALG, 'multilines_intersect_bounds'), [x0, y0, x1, y1, flat, u32([0]), u32([len(sym)]), u32(offs), result])
    elif kind == 'polygon':
        flat, offs = flat_of(sym)
        it.call(it.func(ALG, 'polygons_intersect_bounds'), [x0, y0, x1, y1, flat, u32([0]), u32([len(sym)]), u32(offs), result])
    else:
        rings = [r for part in sym for r in part]
        flat, offs = flat_of(rings)
        po = [0]
        for part in sym:
            po.append(po[-1] + len(part))
        it.call(it.func(ALG, 'multipolygons_intersect_bounds'), [x0, y0, x1, y1, flat, u32([0]), u32([len(sym)]), u32(po), u32(offs), result])
    return result[0]


def canon_measure(it, kind, sym, which):
    """length / area of one element: the measures kernel on a fresh flat copy; constants per kind"""
    if sym is None:
        return float('nan')
    if not T.coords_of(kind, sym):
        return 0.0              # empty element
    if which == 'area' and kind not in ('polygon', 'multipolygon'):
        return 0.0
    if which == 'length' and kind in ('point', 'multipoint'):
        return 0.0
    rings = T.rings_of(kind, sym)
    flat, offs = flat_of(rings)
    f = it.func(MEAS, 'compute_area' if which == 'area' else 'compute_line_length')
    return it.call(f, [flat, np.array(offs, dtype=np.uint32)])


def canon_point_intersects(it, p, skind, ssym):
    """Point (x, y) vs shape element: kernels of point.py / intersection.py on canonical flat data"""
    if p is None or ssym is None:
        return False
    if skind == 'point':
        return values.And(p[0] == ssym[0], p[1] == ssym[1])
    pflat = np.empty(2, dtype=object)
    pflat[0], pflat[1] = p
    inds = np.array([0])
    if skind == 'multipoint':
        flat, _ = flat_of([ssym])
        return it.call(it.func(PT, '_perform_intersects_multipoint'), [pflat, flat, inds])[0]
    rings = T.rings_of(skind, ssym)
    flat, offs = flat_of(rings)
    if skind in ('line', 'ring', 'multiline'):
        return it.call(it.func(PT, '_perform_intersects_line'), [pflat, flat, np.array(offs, dtype=np.uint32), inds])[0]
    return it.call(it.func(ALG, 'point_intersects_polygon'), [p[0], p[1], flat, np.array(offs, dtype=np.uint32)])


# ------------------------------------------------------------------------------------------------ equality terms
def as_bool_term(x):
    if isinstance(x, (bool, np.bool_)):
        return z3.BoolVal(bool(x))
    if isinstance(x, SBool):
        return x.t
    if isinstance(x, Num):
        return tz(x != 0)
    raise TypeError(type(x))


def num_differs(a, b):
    """z3 Bool: two (extended real / NaN) values differ; NaN equals NaN here"""
    a, b = Num.lift(a), Num.lift(b)
    an, bn = tz(wrapb(a.nan)), tz(wrapb(b.nan))
    ai = a.inf if z3.is_expr(a.inf) else z3.IntVal(a.inf)
    bi = b.inf if z3.is_expr(b.inf) else z3.IntVal(b.inf)
    av, bv = c14.toreal(a.v), c14.toreal(b.v)
    same = z3.Or(z3.And(an, bn), z3.And(z3.Not(an), z3.Not(bn), ai == bi, z3.Or(ai != 0, av == bv)))
    return z3.Not(same)


class Outcome:
    """value of one form of one quantity: either per-element symbolic values or the exception it raised"""
    def __init__(self, vals=None, exc=None):
        self.vals, self.exc = vals, exc


def guarded(fn):
    try:
        return Outcome(vals=fn())
    except OutOfBounds as e:
        # numba does not bounds-check: the real code reads or writes outside the buffer here; the replay decides
        return Outcome(exc=f"OutOfBounds: {str(e)[:140]}")
    except (Unsupported, NeedConcrete):
        raise
    except PathRaise as e:
        return Outcome(exc=f"raise {e.text}")
    except Exception as e:  # noqa: BLE001  (native exception inside an interpreted wrapper = the wrapper raises)
        return Outcome(exc=f"{type(e).__name__}: {str(e)[:120]}")


# ------------------------------------------------------------------------------------------------ one task
def array_task(kind, deriv, dtype='float64', quantities=('isna', 'bounds', 'total_bounds', 'intersects_bounds', 'length', 'area'),
               flags=False, timeout=120, seed=0, base=None, inert=False):
    """-> result dict with per-quantity verdicts"""
    t0 = time.time()
    values.set_mul_mode('uf')
    ts = T.TagSpace(sort='int', flags=flags)
    specs = base if base is not None else (BIG[kind] if deriv.startswith('big:') else BASE[kind])
    src, src_syms = T.build_array(ts, kind, specs, dtype)
    src_tags_before = [T.element_tags(kind, src[i]) for i in range(len(src))]
    fa, fl = DERIVS[deriv]
    if 'sindex' in quantities and len(src) and kind != 'point':
        src.build_sindex(page_size=2)           # index state "built on the parent, then derived"
    try:
        arr = fa(src)
    except Exception as e:  # noqa: BLE001  - a valid selection must not raise: replayed on the real code
        return {'status': 'sat', 'solver_s': 0.0, 'queries': 1, 'formula_size': 1, 'encoded': {}, 'verdicts': {}, 'specs': specs,
                'findings': [('elements', 'derivation', 'raises', f'{type(e).__name__}: {str(e)[:160]}')], 'symex_s': round(time.time() - t0, 2)}
    expect_ids = fl(list(range(len(src))))
    it = ts.install(Interp())
    it.stubs['sqrt'] = Stub(c14.sqrt_stub, 'math.sqrt -> uninterpreted sqrt_uf')
    f32 = str(np.dtype(dtype)) == 'float32' and not flags
    if f32:
        # float32 buffer: every coordinate symbol is float32-typed; the relational obligations below cannot see rounding (both
        # sides run the same kernels), so the run must not perform any float32 (op) float32 arithmetic at all (DESIGN 10.2)
        for num in ts.sym.values():
            num.f32 = True
        values.F32.update(on=True, rounded=0, defs=None, sum_exp=25, prod_exp=50)
    try:
        return _array_task_body(kind, deriv, dtype, quantities, flags, timeout, seed, inert, ts, specs, src, src_tags_before, arr, expect_ids, it, t0, f32)
    finally:
        if f32:
            values.F32['on'] = False


def _array_task_body(kind, deriv, dtype, quantities, flags, timeout, seed, inert, ts, specs, src, src_tags_before, arr, expect_ids, it, t0, f32):
    findings = []       # (quantity, form, kind_of_problem, detail)
    checks = []         # (name, z3 disjunction of differences)
    # ---- elements of the derived array equal the selected source elements (native reads, tag identity)
    n = len(arr)
    if n != len(expect_ids):
        findings.append(('elements', 'len', 'mismatch', f'len {n} expected {len(expect_ids)}'))
        expect_ids = (expect_ids + [None] * n)[:n]
    got_tags = [T.element_tags(kind, arr[j]) for j in range(n)]
    for j in range(n):
        want = None if expect_ids[j] is None else src_tags_before[expect_ids[j]]
        if got_tags[j] != want:
            findings.append(('elements', f'[{j}]', 'mismatch', f'got {got_tags[j]} expected {want}'))
    # scalar access with the negative positions -n..-1 gives the same elements
    for j in range(n):
        try:
            tneg = T.element_tags(kind, arr[j - n])
        except Exception as e:  # noqa: BLE001
            findings.append(('elements', f'[{j - n}]', 'raises', f'{type(e).__name__}: {str(e)[:100]}'))
            continue
        if tneg != got_tags[j]:
            findings.append(('elements', f'[{j - n}]', 'mismatch', f'got {tneg} expected {got_tags[j]}'))
    syms = [T.symbolic_element(ts, kind, tg) for tg in got_tags]
    box = tuple(Num(z3.Int(nm)) for nm in ('bx0', 'by0', 'bx1', 'by1'))
    bvars = [b.v for b in box]

    def attr(o, name):
        return it.getattr_(o, name, None, True)

    # ---- a derived array must not carry over an index whose keys are positions in its source
    if 'sindex' in quantities and arr is not src and getattr(arr, '_sindex', None) is not None and deriv not in ('identity',):
        same_rows = expect_ids == list(range(len(src)))
        if not same_rows:
            findings.append(('sindex', 'array', 'mismatch', 'derived array inherits the spatial index of its source although its rows differ'))
    # ---- isna
    if 'isna' in quantities:
        o = guarded(lambda: it.call(attr(arr, 'isna'), []))
        if o.exc:
            findings.append(('isna', 'array', 'raises', o.exc))
        else:
            got = [bool(x) for x in o.vals]
            if got != [s is None for s in syms]:
                findings.append(('isna', 'array', 'mismatch', f'{got} expected {[s is None for s in syms]}'))
    # ---- bounds rows / total bounds
    if 'bounds' in quantities:
        o = guarded(lambda: attr(arr, 'bounds'))
        if o.exc:
            findings.append(('bounds', 'array', 'raises', o.exc))
        else:
            b = o.vals
            if tuple(b.shape) != (n, 4):
                findings.append(('bounds', 'array', 'mismatch', f'shape {b.shape}'))
            else:
                terms = []
                for j in range(n):
                    cs = [Num.lift(c) for c in T.coords_of(kind, syms[j])]
                    X, Y = cs[0::2], cs[1::2]
                    terms += [c13.minmax_spec(b[j, 0], X, True), c13.minmax_spec(b[j, 1], Y, True),
                              c13.minmax_spec(b[j, 2], X, False), c13.minmax_spec(b[j, 3], Y, False)]
                checks.append(('bounds', z3.Not(z3.And(*terms)) if terms else z3.BoolVal(False)))
    if 'total_bounds' in quantities:
        for nm in ('total_bounds', 'total_bounds_x', 'total_bounds_y'):
            o = guarded(lambda nm=nm: attr(arr, nm))
            if o.exc:
                findings.append((nm, 'array', 'raises', o.exc))
                continue
            cs = [Num.lift(c) for s in syms for c in T.coords_of(kind, s)]
            X, Y = cs[0::2], cs[1::2]
            tb = o.vals
            if nm == 'total_bounds':
                spec = z3.And(c13.minmax_spec(tb[0], X, True), c13.minmax_spec(tb[1], Y, True), c13.minmax_spec(tb[2], X, False), c13.minmax_spec(tb[3], Y, False))
            elif nm == 'total_bounds_x':
                spec = z3.And(c13.minmax_spec(tb[0], X, True), c13.minmax_spec(tb[1], X, False))
            else:
                spec = z3.And(c13.minmax_spec(tb[0], Y, True), c13.minmax_spec(tb[1], Y, False))
            checks.append((nm, z3.Not(spec)))
    # ---- intersects_bounds: array / inds / scalar forms against the canonical kernel value
    if 'intersects_bounds' in quantities:
        canon = [as_bool_term(canon_intersects_bounds(it, kind, s, box)) for s in syms]
        o = guarded(lambda: it.call(attr(arr, 'intersects_bounds'), [box]))
        o_arr = o
        if o.exc:
            findings.append(('intersects_bounds', 'array', 'raises', o.exc))
        elif len(o.vals) != n:
            findings.append(('intersects_bounds', 'array', 'mismatch', f'length {len(o.vals)}'))
        else:
            checks.append(('intersects_bounds[array]', z3.Or(*[as_bool_term(o.vals[j]) != canon[j] for j in range(n)]) if n else z3.BoolVal(False)))
        if n:
            for inds in ([n - 1 - j for j in range(n)] + [0], [j for j in range(n) if j % 2 == 0]):
                o = guarded(lambda inds=inds: it.call(attr(arr, 'intersects_bounds'), [box, np.array(inds)]))
                if o.exc:
                    findings.append(('intersects_bounds', f'inds={inds}', 'raises', o.exc))
                elif len(o.vals) != len(inds):
                    findings.append(('intersects_bounds', f'inds={inds}', 'mismatch', f'length {len(o.vals)}'))
                else:
                    checks.append((f'intersects_bounds[inds={inds}]', z3.Or(*[as_bool_term(o.vals[k]) != canon[j] for k, j in enumerate(inds)])))
        if inert and not o_arr.exc and len(o_arr.vals) == n:
            # an element without any finite coordinate never intersects a box
            terms = []
            for j in range(n):
                cs = [Num.lift(c) for c in T.coords_of(kind, syms[j])]
                if syms[j] is not None and cs:
                    terms.append(z3.And(*[z3.Not(c13.finite(c)) for c in cs], as_bool_term(o_arr.vals[j])))
                elif syms[j] is None or not cs:
                    terms.append(as_bool_term(o_arr.vals[j]))
            checks.append(('inert element never intersects', z3.Or(*terms) if terms else z3.BoolVal(False)))
        for j in range(n):
            def scalar(j=j):
                e = arr[j]
                if e is None:
                    return False
                return it.call(attr(e, 'intersects_bounds'), [box])
            o = guarded(scalar)
            if o.exc:
                findings.append(('intersects_bounds', f'scalar[{j}] spec={_spec_of(specs, expect_ids[j])}', 'raises', o.exc))
            else:
                checks.append((f'intersects_bounds[scalar {j}]', as_bool_term(o.vals) != canon[j]))
    # ---- length / area: array and scalar forms
    for which in ('length', 'area'):
        if which not in quantities:
            continue
        canon = [canon_measure(it, kind, s, which) for s in syms]
        o = guarded(lambda which=which: attr(arr, which))
        if o.exc:
            findings.append((which, 'array', 'raises', o.exc))
        elif len(o.vals) != n:
            findings.append((which, 'array', 'mismatch', f'length {len(o.vals)}'))
        else:
            checks.append((f'{which}[array]', z3.Or(*[num_differs(o.vals[j], canon[j]) for j in range(n)]) if n else z3.BoolVal(False)))
        for j in range(n):
            if syms[j] is None:
                continue

            def scalar(j=j, which=which):
                return attr(arr[j], which)
            o = guarded(scalar)
            if o.exc:
                findings.append((which, f'scalar[{j}] spec={_spec_of(specs, expect_ids[j])}', 'raises', o.exc))
            else:
                checks.append((f'{which}[scalar {j}]', num_differs(o.vals, canon[j])))
    # ---- source array untouched by everything above
    after = [T.element_tags(kind, src[i]) for i in range(len(src))]
    if after != src_tags_before:
        findings.append(('source', 'array', 'mismatch', 'the source array was modified'))
    # ---- solve
    s = z3.Solver()
    s.add(*ts.cons)
    lim = {'int16': 32767, 'int32': (1 << 31) - 1, 'float32': 1 << 24}.get(str(np.dtype(dtype)))
    if lim:      # values representable in the coordinate subtype (so that counterexamples can be replayed)
        s.add(*[z3.And(v >= -lim, v <= lim) for v in ts.zvars if z3.is_int(v) or z3.is_real(v)])
    if flags:
        # domain: an element has finite coordinates throughout, or none at all (inert); mixed elements are outside C01/C17
        for sm in syms:
            cs = [Num.lift(c) for c in T.coords_of(kind, sm)]
            if cs:
                s.add(z3.Or(z3.And(*[c13.finite(c) for c in cs]), z3.And(*[z3.Not(c13.finite(c)) for c in cs])))
    res = {}
    solver_s = 0.0
    nq = 0
    for name, disj in checks:
        s.push()
        s.add(disj)
        st, m, dt = z3_check(s, timeout, seed)
        solver_s += dt
        nq += 1
        res[name] = st
        if m is not None:
            findings.append((name, 'solver', 'differs', {'model': model_ints(m, ts.zvars + bvars)}))
        s.pop()
    out = {'status': 'unsat' if not findings and all(v == 'unsat' for v in res.values()) else ('sat' if findings else 'unknown'),
           'solver_s': round(solver_s, 3), 'queries': nq, 'formula_size': sum(len(str(d)) for _, d in checks[:3]) + 1,
           'encoded': it.encoded, 'findings': findings, 'verdicts': res, 'symex_s': round(time.time() - t0 - solver_s, 2),
           'n_elements': n, 'specs': specs, 'expect_ids': expect_ids}
    if not findings and any(v != 'unsat' for v in res.values()):
        out['detail'] = f"undecided: {[k for k, v in res.items() if v != 'unsat']}"
    if f32:
        out['f32_typed_operations'] = values.F32['rounded']
        if values.F32['rounded'] and out['status'] == 'unsat':
            out.update(status='unknown', detail=f"{values.F32['rounded']} float32-typed operations on a float32 buffer: rounding is outside the relational obligation "
                                                "(the float32 kernel queries decide)")
    return out


def _spec_of(specs, i):
    return None if i is None else specs[i]


# ------------------------------------------------------------------------------------------------ replay on the real code
def _concrete_values(model, ntags, default_seed=3):
    vals = {}
    for i in range(ntags):
        v = model.get(f't{i}') if model else None
        if v is None:
            v = (i * 37 + default_seed * 11) % 23 - 7
        vals[i] = int(v) if float(v) == int(v) else float(v)
    return vals


def concrete_array(kind, specs, dtype, model):
    """same structure as the tagged array, coordinates from the model (tags are allocated in the same order)"""
    ts = T.TagSpace()
    _, _ = None, None
    py = []
    for sp in specs:
        v, _s = T.build_element(ts, kind, sp)
        py.append(v)
    vals = _concrete_values(model or {}, ts.n)
    isfloat = np.dtype(dtype).kind == 'f'

    def sub(x):
        if isinstance(x, list):
            return [sub(e) for e in x]
        if x is None:
            return None
        i = (int(x) - T.TAG_BASE) // T.TAG_STEP
        if isfloat and model and model.get(f't{i}_nan'):
            return float('nan')
        if isfloat and model and model.get(f't{i}_inf'):
            return float('inf') * model[f't{i}_inf']
        return vals[i]
    return T.array_class(kind)([sub(e) for e in py], dtype=dtype)


def _nan_eq(a, b, tol=0.0):
    a, b = float(a), float(b)
    if a != a or b != b:
        return a != a and b != b
    return abs(a - b) <= tol * max(1.0, abs(a), abs(b))


def fresh_single(kind, elem, dtype):
    """canonical real computation: a fresh one-element array holding a copy of `elem`"""
    cls = T.array_class(kind)
    if elem is None:
        return None
    if kind == 'point':
        return cls([np.asarray(elem.flat_values, dtype=dtype)], dtype=dtype)
    return cls([elem.data.as_py()], dtype=dtype)


def real_quantity(arr, quantity, form, box=None):
    """evaluate quantity on the real array; -> list of python values or raises"""
    q = quantity.split('[')[0]
    if q in ('bounds',):
        return [tuple(float(x) for x in row) for row in arr.bounds]
    if q.startswith('total_bounds'):
        return [tuple(float(x) for x in getattr(arr, q))]
    if q in ('length', 'area'):
        if form.startswith('scalar'):
            j = int(form.split('[')[1].split(']')[0])
            return [float(getattr(arr[j], q))]
        return [float(x) for x in getattr(arr, q)]
    if q == 'intersects_bounds':
        if form.startswith('scalar'):
            j = int(form.split('[')[1].split(']')[0])
            e = arr[j]
            return [False if e is None else bool(e.intersects_bounds(box))]
        if form.startswith('inds='):
            inds = eval(form.split('=', 1)[1])   # noqa: S307 - our own string
            return [bool(x) for x in arr.intersects_bounds(box, inds=np.array(inds))]
        return [bool(x) for x in arr.intersects_bounds(box)]
    if q == 'isna':
        return [bool(x) for x in arr.isna()]
    raise ValueError(q)


def expected_quantity(kind, arr, dtype, quantity, form, box=None):
    """what the property demands, computed through fresh single-element arrays (the canonical real computation)
    and plain python for the aggregates"""
    q = quantity.split('[')[0]
    n = len(arr)
    elems = [arr[j] for j in range(n)]

    def coords(e):
        if e is None:
            return []
        if kind == 'point':
            return [float(x) for x in e.flat_values]
        out = []

        def walk(x):
            if isinstance(x, list):
                if x and not isinstance(x[0], list):
                    out.extend(float(v) for v in x)
                else:
                    for y in x:
                        walk(y)
        walk(e.data.as_py())
        return out
    if q == 'bounds':
        return [c13.exact_bounds(coords(e)) for e in elems]
    if q.startswith('total_bounds'):
        allc = [c for e in elems for c in coords(e)]
        tb = c13.exact_bounds(allc)
        return [tb if q == 'total_bounds' else ((tb[0], tb[2]) if q == 'total_bounds_x' else (tb[1], tb[3]))]
    if q == 'isna':
        return [e is None for e in elems]

    def rings_py(e):
        d = e.data.as_py() if kind != 'point' else [float(x) for x in e.flat_values]
        if T.NEST[kind] <= 1:
            flat_lists = [d]
        elif T.NEST[kind] == 2:
            flat_lists = d
        else:
            flat_lists = [r for part in d for r in part]
        return [[(float(r[i]), float(r[i + 1])) for i in range(0, len(r), 2)] for r in flat_lists]

    def oracle(e):
        """independent exact/plain-python value of the element (None when no independent oracle applies)"""
        import math
        from . import geom as G
        rs = rings_py(e)
        if q == 'length':
            if kind in ('point', 'multipoint'):
                return 0.0
            return sum(math.hypot(r[i + 1][0] - r[i][0], r[i + 1][1] - r[i][1]) for r in rs for i in range(len(r) - 1)
                       if all(math.isfinite(c) for c in r[i] + r[i + 1]))
        if q == 'area':
            if kind not in ('polygon', 'multipolygon'):
                return 0.0
            if any(not math.isfinite(c) for r in rs for v in r for c in v) or not G.rings_closed_x(rs):
                return None
            return float(sum((G.signed_area2_x(r) / 2 for r in rs if len(r) >= 3), G.F(0)))
        if q == 'intersects_bounds':
            if any(not math.isfinite(c) for r in rs for v in r for c in v):
                return None
            nb = G.norm_box(box)
            if kind in ('point', 'multipoint'):
                return any(nb[0] <= v[0] <= nb[2] and nb[1] <= v[1] <= nb[3] for r in rs for v in r)
            if nb[0] == nb[2] or nb[1] == nb[3]:
                return None              # degenerate box: outside the guarantee for line and polygon kinds
            if kind in ('line', 'ring', 'multiline'):
                return any(G.line_box_x(r, nb) for r in rs)
            parts = [rs] if kind == 'polygon' else [[[(float(r[i]), float(r[i + 1])) for i in range(0, len(r), 2)] for r in part] for part in e.data.as_py()]
            if not all(G.rings_closed_x(p) for p in parts):
                return None
            res = [G.polygon_box_x(p, nb) for p in parts]
            return any(a for a, _ in res) if all(u for _, u in res) else None
        return None

    def one(j):
        e = elems[j]
        if e is None:
            return False if q == 'intersects_bounds' else float('nan')
        o = oracle(e)
        if o is not None:
            return o
        f = fresh_single(kind, e, dtype)      # no independent oracle (e.g. ambiguous winding): the canonical real computation
        if q == 'intersects_bounds':
            return bool(f.intersects_bounds(box)[0])
        return float(getattr(f, q)[0])
    if form.startswith('scalar'):
        j = int(form.split('[')[1].split(']')[0])
        return [one(j)]
    if form.startswith('inds='):
        inds = eval(form.split('=', 1)[1])   # noqa: S307
        return [one(j) for j in inds]
    return [one(j) for j in range(n)]


def replay_finding(kind, specs, deriv, dtype, finding):
    """-> (reproduced?, witness)"""
    quantity, form, problem, detail = finding
    model = detail.get('model') if isinstance(detail, dict) else None
    if problem == 'differs':
        form = quantity.split('[', 1)[1][:-1] if '[' in quantity else 'array'
        if form.startswith('scalar '):
            form = f"scalar[{form.split()[1]}]"
    box = tuple(model.get(k, d) for k, d in zip(('bx0', 'by0', 'bx1', 'by1'), (-100, -100, 100, 100))) if model else (-100, -100, 100, 100)
    src = concrete_array(kind, specs, dtype, model)
    try:
        arr = DERIVS[deriv][0](src)
    except Exception as e:  # noqa: BLE001
        ids = DERIVS[deriv][1](list(range(len(src))))
        return True, {'kind': kind, 'specs': specs, 'derivation': deriv, 'dtype': dtype, 'quantity': 'elements', 'form': 'derivation',
                      'got': f'raises {type(e).__name__}: {str(e)[:160]}', 'expected': f'the elements {ids} of the source', 'elements': []}
    wit = {'kind': kind, 'specs': specs, 'derivation': deriv, 'dtype': dtype, 'quantity': quantity.split('[')[0], 'form': form,
           'elements': [None if arr[j] is None else (arr[j].data.as_py() if kind != 'point' else arr[j].flat_values.tolist()) for j in range(len(arr))],
           'box': box}
    if quantity.startswith('inert element'):
        import math
        wit['quantity'], wit['form'] = 'intersects_bounds', 'array'
        try:
            got = [bool(x) for x in arr.intersects_bounds(box)]
        except Exception as e:  # noqa: BLE001
            wit['got'] = f'raises {type(e).__name__}: {str(e)[:160]}'
            return True, wit

        def flat(x):
            return [c for y in x for c in flat(y)] if isinstance(x, list) else [x]
        inert_rows = [j for j in range(len(arr)) if arr[j] is None or not any(math.isfinite(c) for c in flat(wit['elements'][j]))]
        wit.update(got=got, expected='False for the inert rows ' + str(inert_rows))
        offenders = [j for j in inert_rows if got[j]]
        # every offending row is made of infinities (no NaN-only or missing row involved): the recorded finding 'element of infinities'
        wit['inert_with_infinity'] = bool(offenders) and all(arr[j] is not None and any(math.isinf(c) for c in flat(wit['elements'][j])) for j in offenders)
        return bool(offenders), wit
    if quantity == 'sindex':
        src.build_sindex(page_size=2)
        arr = DERIVS[deriv][0](src)
        fresh = T.array_class(kind)([None if arr[j] is None else (arr[j].data.as_py() if kind != 'point' else arr[j].flat_values) for j in range(len(arr))], dtype=dtype)
        tb = [v for v in fresh.total_bounds]
        bad_any = False
        for fx in (0.25, 0.5, 0.75):
            bx = (tb[0], tb[1], tb[0] + (tb[2] - tb[0]) * fx, tb[1] + (tb[3] - tb[1]) * fx)
            got = arr.cx[bx[0]:bx[2], bx[1]:bx[3]]
            want = fresh.cx[bx[0]:bx[2], bx[1]:bx[3]]
            g = [None if got[j] is None else got[j].data.as_py() for j in range(len(got))]
            w = [None if want[j] is None else want[j].data.as_py() for j in range(len(want))]
            if g != w:
                wit.update(quantity='cx (index inherited from the source array)', form='array', got=g, expected=w, box=bx)
                bad_any = True
                break
        return bad_any, wit
    if quantity == 'elements' or quantity == 'source':
        # tag identity is concrete: re-derive and compare with the reference selection
        ids = DERIVS[deriv][1](list(range(len(src))))
        def py(e):
            return None if e is None else (e.data.as_py() if kind != 'point' else [float(c) for c in e.flat_values])
        got = [py(arr[j]) for j in range(len(arr))]
        want = [None if (i is None or src[i] is None) else py(src[i]) for i in ids]
        wit.update(got=got, expected=want)
        if got != want:
            return True, wit
        try:
            gneg = [py(arr[j - len(arr)]) for j in range(len(arr))]
        except Exception as e:  # noqa: BLE001
            wit.update(got=f'scalar access with a negative position raises {type(e).__name__}: {str(e)[:120]}', form='negative positions -n..-1')
            return True, wit
        wit.update(got=gneg, form='negative positions -n..-1')
        return gneg != want, wit
    if problem == 'raises' and model is None and quantity.split('[')[0] == 'intersects_bounds' and str(detail).startswith('OutOfBounds'):
        # the interpreted wrapper indexes outside a buffer on this path whatever the coordinates are; numba does not
        # bounds-check, so the real call returns an answer computed from the wrong memory: demonstrate it with boxes
        # that separate the elements (tight around the first vertex of each element, and one far away)
        def first_vertex(x):
            while isinstance(x, list) and x and isinstance(x[0], list):
                x = x[0]
            return x[:2] if isinstance(x, list) and len(x) >= 2 else None
        cands = [box, (1000.0, 1000.0, 1001.0, 1001.0)]
        for el in wit['elements']:
            fv = first_vertex(el)
            if fv is not None:
                cands.append((fv[0] - 0.5, fv[1] - 0.5, fv[0] + 0.5, fv[1] + 0.5))
        for cb in cands:
            try:
                got = real_quantity(arr, quantity, form, cb)
                want = expected_quantity(kind, arr, dtype, quantity, form, cb)
            except Exception:  # noqa: BLE001
                continue
            if list(got) != list(want):
                wit.update(box=cb, got=got, expected=want, note='out-of-bounds indexing found symbolically; wrong answer on the real code')
                return True, wit
    try:
        got = real_quantity(arr, quantity, form, box)
    except Exception as e:  # noqa: BLE001
        wit.update(got=f'raises {type(e).__name__}: {str(e)[:160]}')
        try:
            wit['expected'] = expected_quantity(kind, arr, dtype, quantity, form, box)
        except Exception as e2:  # noqa: BLE001
            wit['expected'] = f'(canonical computation also raises: {type(e2).__name__})'
        return True, wit
    try:
        want = expected_quantity(kind, arr, dtype, quantity, form, box)
    except Exception as e:  # noqa: BLE001
        wit.update(got=got, expected=f'canonical computation raises {type(e).__name__}: {str(e)[:120]}')
        return False, wit
    wit.update(got=got, expected=want)
    q = quantity.split('[')[0]
    if q in ('intersects_bounds', 'isna'):
        bad = list(got) != list(want)
    elif q in ('length',):
        bad = len(got) != len(want) or any(not _nan_eq(a, b, 1e-9) for a, b in zip(got, want))
    elif q in ('area',):
        bad = len(got) != len(want) or any(not _nan_eq(a, b) for a, b in zip(got, want))
    else:
        bad = len(got) != len(want) or any(len(a) != len(b) or any(not _nan_eq(x, y) for x, y in zip(a, b)) for a, b in zip(got, want))
    return bad, wit


PROP_OF = {'sindex': 'C04', 'intersects_bounds': 'C01', 'intersects': 'C02', 'bounds': 'C13', 'total_bounds': 'C13', 'total_bounds_x': 'C13',
           'total_bounds_y': 'C13', 'length': 'C14', 'area': 'C14', 'isna': 'C16', 'elements': 'C16', 'source': 'C16', 'boundary': 'C14'}


def finding_key(pid, kind, finding, specs=None, wit=None):
    quantity, form, problem, _ = finding
    q = quantity.split('[')[0]
    if wit is not None and wit.get('inert_with_infinity'):
        return f"{pid}:element-of-infinities:{wit.get('quantity', q)}:{kind}"
    fm = 'scalar' if 'scalar' in str(form) or 'scalar' in quantity else 'array'
    extra = ''
    if wit is not None:
        els = wit.get('elements') or []
        if any(e is None for e in els):
            extra = ':with-missing'
        if 'scalar' in fm and wit.get('form', '').startswith('scalar['):
            j = int(wit['form'].split('[')[1].split(']')[0])
            if j < len(els) and els[j] in ([], [[]]):
                extra = ':empty-element'
    return f"{pid}:{kind}:{q}:{fm}:{'raises' if problem == 'raises' else 'wrong-value'}{extra}"


def run_arrays(check, pool, Task, pid, quantities, kinds=None, derivs=None, dtypes=('float64',), label='wrappers', flags=False, bases=None, inert=False):
    """schedule array_task for every (kind, derivation, dtype); replay findings; record obligations"""
    kinds = kinds or list(BASE)
    derivs = derivs or QUICK_DERIVS
    cap = 900 if check.tier == 'thorough' else 400
    tasks = []
    for kind in kinds:
        for dt in dtypes:
            for d in derivs:
                for bi, base in enumerate((bases or {}).get(kind, [None])):
                    nm = f"{label}:{kind}[{dt}] {d}{'' if base is None else ' elements=' + str(base)} -> {','.join(quantities)}"
                    tasks.append(Task(nm, array_task, (kind, d), {'dtype': dt, 'quantities': tuple(quantities), 'timeout': 120, 'seed': check.seed, 'flags': flags,
                                                                   'base': base, 'inert': inert},
                                      timeout=cap, meta={'kind': kind, 'deriv': d, 'dtype': dt}))
    tasks.sort(key=lambda t: -T.NEST[t.meta['kind']])
    res = pool(tasks)
    for t in tasks:
        r = res.get(t.name, {'status': 'error', 'detail': 'no result'})
        m = t.meta
        fnd = r.get('findings') or []
        if r['status'] == 'sat' and fnd:
            outcome = []
            for f in fnd:
                try:
                    bad, wit = replay_finding(m['kind'], r.get('specs') or BASE[m['kind']], m['deriv'], m['dtype'], f)
                except (OverflowError, ValueError):      # counterexample not representable in the coordinate subtype
                    outcome.append('spurious')
                    continue
                except Exception as e:  # noqa: BLE001
                    check.harness_error(f"replay of {t.name} {f[:3]} failed: {type(e).__name__}: {e}\n{traceback.format_exc()[-800:]}")
                    continue
                if bad:
                    key = finding_key(pid, m['kind'], f, wit=wit)
                    v = check.violation(key, f"{m['kind']} array ({m['deriv']}, {m['dtype']}): {wit['quantity']} [{wit['form']}] = {str(wit.get('got'))[:200]} "
                                             f"but the elements alone give {str(wit.get('expected'))[:200]}", wit)
                    outcome.append(v)
                else:
                    outcome.append('spurious')
            if any(o == 'new' or o == 'dup' for o in outcome):
                st = 'violated'
            elif outcome and all(o == 'known' for o in outcome):
                st = 'known-finding'
            elif 'spurious' in outcome:
                st = 'inconclusive'
                r = dict(r, detail=f"symbolic finding did not reproduce on the real code: {[f[:3] for f, o in zip(fnd, outcome) if o == 'spurious'][:3]}")
            else:
                st = 'known-finding'
            check.record(t.name, dict(r, status=st), 'wrapper', m)
        else:
            check.record(t.name, r, 'wrapper', m)


# ------------------------------------------------------------------------------------------------ C02: PointArray.intersects(shape)
SHAPES = {
    'point': ['P'],
    'multipoint': [3, 0],
    'line': [3, 1],
    'ring': [4],
    'multiline': [[2, 3], [2]],
    'polygon': [[3, 3], [4]],
    'multipolygon': [[[3], [3, 3]], [[4]]],
}


def point_intersects_task(skind, sspec, pderiv='identity', sliced_shape=False, timeout=120, seed=0):
    """PointArray.intersects(shape) / intersects(shape, inds) / Point.intersects(shape) against the canonical
    kernel value per point; shape = scalar element of a (possibly sliced) tagged array of kind `skind`"""
    t0 = time.time()
    values.set_mul_mode('uf')
    ts = T.TagSpace(sort='int')
    psrc, _ = T.build_array(ts, 'point', BASE['point'])
    parr = DERIVS[pderiv][0](psrc)
    filler = BASE[skind][0]
    sarr, _ = T.build_array(ts, skind, [filler, sspec] if sliced_shape else [sspec])
    if sliced_shape:
        sarr = sarr[1:]
    shape = sarr[0]
    ssym = T.symbolic_element(ts, skind, T.element_tags(skind, shape))
    it = ts.install(Interp())
    n = len(parr)
    psyms = [T.symbolic_element(ts, 'point', T.element_tags('point', parr[j])) for j in range(n)]
    canon = [as_bool_term(canon_point_intersects(it, p, skind, ssym)) for p in psyms]
    findings, checks = [], []

    def attr(o, name):
        return it.getattr_(o, name, None, True)
    o = guarded(lambda: it.call(attr(parr, 'intersects'), [shape]))
    if o.exc:
        findings.append(('intersects', 'array', 'raises', o.exc))
    elif len(o.vals) != n:
        findings.append(('intersects', 'array', 'mismatch', f'length {len(o.vals)}'))
    else:
        checks.append(('intersects[array]', z3.Or(*[as_bool_term(o.vals[j]) != canon[j] for j in range(n)])))
    for inds in ([n - 1 - j for j in range(n)] + [0], [j for j in range(n) if j % 2 == 1]):
        o = guarded(lambda inds=inds: it.call(attr(parr, 'intersects'), [shape], {'inds': np.array(inds)}))
        if o.exc:
            findings.append(('intersects', f'inds={inds}', 'raises', o.exc))
        elif len(o.vals) != len(inds):
            findings.append(('intersects', f'inds={inds}', 'mismatch', f'length {len(o.vals)}'))
        else:
            checks.append((f'intersects[inds={inds}]', z3.Or(*[as_bool_term(o.vals[k]) != canon[j] for k, j in enumerate(inds)])))
    for j in range(n):
        def scalar(j=j):
            e = parr[j]
            if e is None:
                return False
            return it.call(attr(e, 'intersects'), [shape])
        o = guarded(scalar)
        if o.exc:
            findings.append(('intersects', f'scalar[{j}]', 'raises', o.exc))
        else:
            checks.append((f'intersects[scalar {j}]', as_bool_term(o.vals) != canon[j]))
    s = z3.Solver()
    res, solver_s, nq = {}, 0.0, 0
    for name, disj in checks:
        s.push()
        s.add(disj)
        st, m, dt = z3_check(s, timeout, seed)
        solver_s += dt
        nq += 1
        res[name] = st
        if m is not None:
            findings.append((name, 'solver', 'differs', {'model': model_ints(m, ts.zvars)}))
        s.pop()
    out = {'status': 'unsat' if not findings and all(v == 'unsat' for v in res.values()) else ('sat' if findings else 'unknown'),
           'solver_s': round(solver_s, 3), 'queries': nq, 'formula_size': sum(len(str(d)) for _, d in checks[:3]) + 1, 'encoded': it.encoded,
           'findings': findings, 'verdicts': res, 'symex_s': round(time.time() - t0 - solver_s, 2)}
    if not findings and any(v != 'unsat' for v in res.values()):
        out['detail'] = f"undecided: {[k for k, v in res.items() if v != 'unsat']}"
    return out


def point_intersects_inert_task(skind, sspec, timeout=120, seed=0, flags='nan'):
    """C17: an element without any finite coordinate (all NaN) never satisfies PointArray.intersects - neither as a point
    of the array nor as the shape.  Coordinates carry NaN flags; every element is all-finite or all-NaN; array,
    inds and scalar forms."""
    t0 = time.time()
    values.set_mul_mode('uf')
    ts = T.TagSpace(sort='int', flags=flags)
    parr, _ = T.build_array(ts, 'point', ['P', None, 'P'])
    sarr, _ = T.build_array(ts, skind, [sspec])
    shape = sarr[0]
    ssym = T.symbolic_element(ts, skind, T.element_tags(skind, shape))
    it = ts.install(Interp())
    n = len(parr)
    psyms = [T.symbolic_element(ts, 'point', T.element_tags('point', parr[j])) for j in range(n)]

    def coords(kind, sym):
        return [Num.lift(c) for c in T.coords_of(kind, sym)]
    s_cs = coords(skind, ssym)
    s_inert = z3.And(*[z3.Not(c13.finite(c)) for c in s_cs]) if s_cs else z3.BoolVal(True)
    dom = [z3.Or(z3.And(*[c13.finite(c) for c in s_cs]), s_inert)] if s_cs else []
    p_inert = []
    for ps in psyms:
        cs = coords('point', ps) if ps is not None else []
        if ps is None or not cs:
            p_inert.append(z3.BoolVal(True))
        else:
            p_inert.append(z3.And(*[z3.Not(c13.finite(c)) for c in cs]))
            dom.append(z3.Or(z3.And(*[c13.finite(c) for c in cs]), p_inert[-1]))
    findings, checks = [], []

    def attr(o, name):
        return it.getattr_(o, name, None, True)
    o = guarded(lambda: it.call(attr(parr, 'intersects'), [shape]))
    if o.exc:
        findings.append(('intersects', 'array', 'raises', o.exc))
    elif len(o.vals) != n:
        findings.append(('intersects', 'array', 'mismatch', f'length {len(o.vals)}'))
    else:
        checks.append(('inert intersects[array]', z3.Or(*[z3.And(z3.Or(p_inert[j], s_inert), as_bool_term(o.vals[j])) for j in range(n)])))
        vac = [('reach: a point intersects', z3.Or(*[as_bool_term(o.vals[j]) for j in range(n)])),
               ('reach: an inert point or shape exists', z3.Or(s_inert if s_cs else z3.BoolVal(False), *[p_inert[j] for j in range(n) if psyms[j] is not None]))]
    inds = [2, 0, 1]
    o = guarded(lambda: it.call(attr(parr, 'intersects'), [shape], {'inds': np.array(inds)}))
    if o.exc:
        findings.append(('intersects', f'inds={inds}', 'raises', o.exc))
    elif len(o.vals) == len(inds):
        checks.append((f'inert intersects[inds={inds}]', z3.Or(*[z3.And(z3.Or(p_inert[j], s_inert), as_bool_term(o.vals[k])) for k, j in enumerate(inds)])))
    for j in range(n):
        if parr[j] is None:
            continue
        o = guarded(lambda j=j: it.call(attr(parr[j], 'intersects'), [shape]))
        if o.exc:
            findings.append(('intersects', f'scalar[{j}]', 'raises', o.exc))
        else:
            checks.append((f'inert intersects[scalar {j}]', z3.And(z3.Or(p_inert[j], s_inert), as_bool_term(o.vals))))
    s = z3.Solver()
    s.add(*ts.cons)
    s.add(*dom)
    res, solver_s, nq = {}, 0.0, 0
    for name, cond in (vac if not findings and checks else []):          # reachability twins: must be satisfiable
        s.push()
        s.add(cond)
        st, _m, dt = z3_check(s, min(timeout, 60), seed)
        solver_s += dt
        nq += 1
        s.pop()
        if st != 'sat':
            return {'status': 'error', 'detail': f'vacuity twin failed: {name}: {st}', 'solver_s': round(solver_s, 3), 'queries': nq, 'formula_size': 1, 'encoded': it.encoded,
                    'findings': [], 'verdicts': {}}
    for name, disj in checks:
        s.push()
        s.add(disj)
        st, m, dt = z3_check(s, timeout, seed)
        solver_s += dt
        nq += 1
        res[name] = st
        if m is not None:
            findings.append((name, 'solver', 'differs', {'model': model_ints(m, ts.zvars)}))
        s.pop()
    out = {'status': 'unsat' if not findings and all(v == 'unsat' for v in res.values()) else ('sat' if findings else 'unknown'),
           'solver_s': round(solver_s, 3), 'queries': nq, 'formula_size': sum(len(str(d)) for _, d in checks[:3]) + 1, 'encoded': it.encoded,
           'findings': findings, 'verdicts': res, 'symex_s': round(time.time() - t0 - solver_s, 2)}
    if not findings and any(v != 'unsat' for v in res.values()):
        out['detail'] = f"undecided: {[k for k, v in res.items() if v != 'unsat']}"
    return out


def replay_point_intersects_inert(skind, sspec, finding):
    """real arrays with the model's NaN pattern: every form must give False for inert points / an inert shape"""
    import math
    import spatialpandas.geometry as sg
    quantity, form, problem, detail = finding
    model = detail.get('model') if isinstance(detail, dict) else {}
    ts = T.TagSpace()
    ppy = [T.build_element(ts, 'point', sp)[0] for sp in ['P', None, 'P']]
    spy = [T.build_element(ts, skind, sspec)[0]]
    vals = _concrete_values(model or {}, ts.n)

    def sub(x):
        if isinstance(x, list):
            return [sub(e) for e in x]
        if x is None:
            return None
        i = (int(x) - T.TAG_BASE) // T.TAG_STEP
        if (model or {}).get(f't{i}_nan'):
            return float('nan')
        if (model or {}).get(f't{i}_inf'):
            return float('inf') * (model or {})[f't{i}_inf']
        return float(vals[i])
    parr = sg.PointArray([sub(e) for e in ppy], dtype='float64')
    sarr = T.array_class(skind)([sub(e) for e in spy], dtype='float64')
    shape = sarr[0]

    def flat(x):
        return [c for y in x for c in flat(y)] if isinstance(x, list) else [x]
    s_inert = not any(math.isfinite(c) for c in flat(sub(spy[0])))
    p_inert = [e is None or not any(math.isfinite(c) for c in flat(sub(e))) for e in ppy]
    wit = {'kind': 'point', 'shape_kind': skind, 'shape': sub(spy[0]), 'points': [sub(e) for e in ppy], 'quantity': 'intersects', 'form': 'array/inds/scalar',
           'elements': [sub(e) for e in ppy]}
    try:
        got = {'array': [bool(x) for x in parr.intersects(shape)], 'inds[2,0,1]': [bool(x) for x in parr.intersects(shape, inds=np.array([2, 0, 1]))],
               'scalar': [False if parr[j] is None else bool(parr[j].intersects(shape)) for j in range(len(parr))]}
    except Exception as e:  # noqa: BLE001
        wit['got'] = f'raises {type(e).__name__}: {str(e)[:160]}'
        return True, wit
    wit.update(got=got, expected=f"False wherever the point is inert {p_inert} or the shape is inert ({s_inert})")
    hits = [j for j, v in enumerate(got['array']) if v and (s_inert or p_inert[j])] + [j for j, v in enumerate(got['scalar']) if v and (s_inert or p_inert[j])] \
        + [j for v, j in zip(got['inds[2,0,1]'], [2, 0, 1]) if v and (s_inert or p_inert[j])]
    # finding 'element of infinities': every inert operand involved in a hit contains an infinity (no NaN-only / missing operand)
    def has_inf(x):
        return x is not None and any(math.isinf(c) for c in flat(x))
    wit['inert_with_infinity'] = bool(hits) and all((has_inf(sub(spy[0])) if s_inert else True) and (has_inf(sub(ppy[j])) if p_inert[j] else True) for j in hits)
    return bool(hits), wit


def run_point_intersects_inert(check, pool, Task, pid='C17'):
    tasks = []
    for skind, sspec in (('point', 'P'), ('multipoint', 2), ('line', 2), ('line', 3), ('multiline', [2, 2]), ('polygon', [3]), ('multipolygon', [[3]])):
        nm = f"inert: PointArray.intersects({skind} {sspec}) with all-NaN points / shape"
        tasks.append(Task(nm, point_intersects_inert_task, (skind, sspec), {'seed': check.seed}, timeout=600, meta={'skind': skind, 'sspec': sspec}))
    # coordinates may also be infinite: an element made of infinities has no finite coordinate either
    for skind, sspec in (('point', 'P'), ('line', 2)) + ((('multipoint', 2), ('polygon', [3])) if check.tier == 'thorough' else ()):
        nm = f"inert: PointArray.intersects({skind} {sspec}) with points / shape of NaN and infinite coordinates"
        tasks.append(Task(nm, point_intersects_inert_task, (skind, sspec), {'seed': check.seed, 'flags': True}, timeout=600, meta={'skind': skind, 'sspec': sspec, 'inf': True}))
    res = pool(tasks)
    for t in tasks:
        r = res.get(t.name, {'status': 'error', 'detail': 'no result'})
        m = t.meta
        fnd = r.get('findings') or []
        if r['status'] == 'sat' and fnd:
            outcome = []
            for f in fnd:
                try:
                    bad, wit = replay_point_intersects_inert(m['skind'], m['sspec'], f)
                except Exception as e:  # noqa: BLE001
                    check.harness_error(f"replay of {t.name} failed: {type(e).__name__}: {e}\n{traceback.format_exc()[-600:]}")
                    continue
                if bad:
                    key = f"{pid}:element-of-infinities:intersects:{m['skind']}" if wit.get('inert_with_infinity') else f"{pid}:point-intersects-inert:{m['skind']}"
                    outcome.append(check.violation(key, f"PointArray.intersects({m['skind']}) is True for an element without finite coordinates: "
                                                   f"points {wit['points']} shape {wit['shape']} -> {wit.get('got')}", wit))
                else:
                    outcome.append('spurious')
            st = 'violated' if any(o in ('new', 'dup') for o in outcome) else ('known-finding' if outcome and all(o == 'known' for o in outcome) else 'inconclusive')
            check.record(t.name, dict(r, status=st, detail='symbolic finding did not reproduce on the real code' if st == 'inconclusive' else None), 'wrapper', m)
        else:
            check.record(t.name, r, 'wrapper', m)


def replay_point_intersects(skind, sspec, pderiv, sliced_shape, finding, sdtype=None):
    """real PointArray.intersects forms against the value for a fresh one-point array (missing -> False)"""
    quantity, form, problem, detail = finding
    model = detail.get('model') if isinstance(detail, dict) else {}
    if problem == 'differs':
        form = quantity.split('[', 1)[1][:-1]
        if form.startswith('scalar '):
            form = f"scalar[{form.split()[1]}]"
    ts = T.TagSpace()
    ppy = [T.build_element(ts, 'point', sp)[0] for sp in BASE['point']]
    filler = BASE[skind][0]
    spy = [T.build_element(ts, skind, sp)[0] for sp in ([filler, sspec] if sliced_shape else [sspec])]
    vals = _concrete_values(model or {}, ts.n)

    def sub(x):
        if isinstance(x, list):
            return [sub(e) for e in x]
        return None if x is None else vals[(int(x) - T.TAG_BASE) // T.TAG_STEP]
    import spatialpandas.geometry as sg
    if sdtype is None:
        # the symbolic model does not distinguish coordinate subtypes of the operand: try the same subtype first, then others
        integral = all(float(v) == int(v) for v in vals.values())
        last = None
        for sd in ['float64'] + (['int64', 'float32'] if integral else []):
            bad, wit = replay_point_intersects(skind, sspec, pderiv, sliced_shape, finding, sdtype=sd)
            last = (bad, wit)
            if bad:
                return bad, wit
        return last
    parr = DERIVS[pderiv][0](sg.PointArray([sub(e) for e in ppy], dtype='float64'))
    sarr = T.array_class(skind)([sub(e) for e in spy], dtype=sdtype)
    if sliced_shape:
        sarr = sarr[1:]
    shape = sarr[0]
    n = len(parr)

    def one(j):
        e = parr[j]
        if e is None:
            return False
        if skind == 'point':          # independent oracle: the coordinates are equal
            return [float(c) for c in e.flat_values] == [float(c) for c in shape.flat_values]
        return bool(sg.PointArray([e.flat_values], dtype='float64').intersects(shape)[0])
    wit = {'kind': 'point', 'shape_kind': skind, 'shape_dtype': sdtype, 'shape': shape.data.as_py() if skind != 'point' else shape.flat_values.tolist(),
           'points': [None if parr[j] is None else parr[j].flat_values.tolist() for j in range(n)], 'form': form, 'quantity': 'intersects',
           'elements': [None if parr[j] is None else parr[j].flat_values.tolist() for j in range(n)]}
    try:
        if form.startswith('scalar['):
            j = int(form.split('[')[1].split(']')[0])
            got = [False if parr[j] is None else bool(parr[j].intersects(shape))]
            want = [one(j)]
        elif form.startswith('inds='):
            inds = eval(form.split('=', 1)[1])   # noqa: S307
            got = [bool(x) for x in parr.intersects(shape, inds=np.array(inds))]
            want = [one(j) for j in inds]
        else:
            got = [bool(x) for x in parr.intersects(shape)]
            want = [one(j) for j in range(n)]
    except Exception as e:  # noqa: BLE001
        wit['got'] = f'raises {type(e).__name__}: {str(e)[:160]}'
        return True, wit
    wit.update(got=got, expected=want)
    return got != want, wit


def run_point_intersects(check, pool, Task, pid='C02'):
    cap = 600
    tasks = []
    pderivs = ['identity', 'slice[1:]'] + (['take_fill[0,NA,2]', 'concat[2:]+[:2]'] if check.tier == 'thorough' else [])
    for skind, sspecs in SHAPES.items():
        for k, sspec in enumerate(sspecs):
            for pd in pderivs:
                for sl in ((False, True) if (k == 0 or check.tier == 'thorough') else (False,)):
                    nm = f"wrappers:PointArray.intersects({skind} {sspec}{' from sliced array' if sl else ''}) points={pd}"
                    tasks.append(Task(nm, point_intersects_task, (skind, sspec), {'pderiv': pd, 'sliced_shape': sl, 'seed': check.seed}, timeout=cap,
                                      meta={'skind': skind, 'sspec': sspec, 'pderiv': pd, 'sliced': sl}))
    res = pool(tasks)
    for t in tasks:
        r = res.get(t.name, {'status': 'error', 'detail': 'no result'})
        m = t.meta
        fnd = r.get('findings') or []
        if r['status'] == 'sat' and fnd:
            outcome = []
            for f in fnd:
                try:
                    bad, wit = replay_point_intersects(m['skind'], m['sspec'], m['pderiv'], m['sliced'], f)
                except Exception as e:  # noqa: BLE001
                    check.harness_error(f"replay of {t.name} failed: {type(e).__name__}: {e}\n{traceback.format_exc()[-600:]}")
                    continue
                if bad:
                    key = finding_key(pid, 'point', f, wit=wit)
                    outcome.append(check.violation(key, f"PointArray ({m['pderiv']}).intersects({m['skind']}) [{wit['form']}] = {wit.get('got')} but each point "
                                                        f"alone gives {wit.get('expected')}", wit))
                else:
                    outcome.append('spurious')
            st = 'violated' if any(o in ('new', 'dup') for o in outcome) else ('known-finding' if outcome and all(o == 'known' for o in outcome) else 'inconclusive')
            if st == 'inconclusive':
                r = dict(r, detail='symbolic finding did not reproduce on the real code')
            check.record(t.name, dict(r, status=st), 'wrapper', m)
        else:
            check.record(t.name, r, 'wrapper', m)


# ------------------------------------------------------------------------------------------------ per-property entry points
DTYPES_ALL = ('float64', 'float32', 'int64', 'int32', 'int16')


def run_c01(check, pool, Task):
    derivs = ['identity', 'slice[1:]', 'concat[2:]+[:2]', 'take_fill[0,NA,2]'] + (['pickle(slice)[1:]', 'reverse[::-1]', 'slice[1:][1:]'] if check.tier == 'thorough' else [])
    run_arrays(check, pool, Task, 'C01', ('intersects_bounds',), derivs=derivs, dtypes=('float64',), label='wrappers')
    other = DTYPES_ALL[1:] if check.tier == 'thorough' else ('int16', 'float32')
    run_arrays(check, pool, Task, 'C01', ('intersects_bounds',), derivs=['slice[1:]'], dtypes=other, label='wrappers')
    check.assumptions.append('wrapper obligations: wrapper(derived array)[i] == the same kernel on a fresh flat copy of element i (multiplication '
                             'uninterpreted: equal data gives equal results under every interpretation); scalar, array and inds forms')


def run_c02(check, pool, Task):
    run_point_intersects(check, pool, Task, 'C02')
    check.assumptions.append('wrapper obligations: PointArray.intersects / Point.intersects forms == the jitted kernel on the point alone; missing point -> False')


# ------------------------------------------------------------------------------------------------ C14: boundary
def boundary_task(kind, deriv, timeout=120, seed=0):
    """PolygonArray/MultiPolygonArray.boundary: a multiline array with exactly the rings (tags identical), missing
    stays missing, and boundary.length == length for all coordinates"""
    t0 = time.time()
    values.set_mul_mode('uf')
    ts = T.TagSpace(sort='int')
    src, _ = T.build_array(ts, kind, BASE[kind])
    arr = DERIVS[deriv][0](src)
    it = ts.install(Interp())
    it.stubs['sqrt'] = Stub(c14.sqrt_stub, 'math.sqrt -> uninterpreted sqrt_uf')
    findings, checks = [], []
    n = len(arr)

    def attr(o, name):
        return it.getattr_(o, name, None, True)
    o = guarded(lambda: attr(arr, 'boundary'))
    if o.exc:
        findings.append(('boundary', 'array', 'raises', o.exc))
    else:
        b = o.vals
        if type(b).__name__ != 'MultiLineArray' or len(b) != n:
            findings.append(('boundary', 'array', 'mismatch', f'{type(b).__name__} of length {len(b)}'))
        else:
            for j in range(n):
                e, be = arr[j], b[j]
                want = None if e is None else ([r for part in e.data.as_py() for r in part] if kind == 'multipolygon' else e.data.as_py())
                got = None if be is None else be.data.as_py()
                if got != want:
                    findings.append(('boundary', f'element[{j}]', 'mismatch', f'got {got} expected {want}'))
            lb = guarded(lambda: attr(b, 'length'))
            la = guarded(lambda: attr(arr, 'length'))
            if lb.exc or la.exc:
                findings.append(('boundary', 'length', 'raises', lb.exc or la.exc))
            else:
                checks.append(('boundary.length == length', z3.Or(*[num_differs(lb.vals[j], la.vals[j]) for j in range(n)]) if n else z3.BoolVal(False)))
    # scalar form
    for j in range(n):
        if arr[j] is None:
            continue

        def sc(j=j):
            return attr(arr[j], 'boundary')
        o = guarded(sc)
        if o.exc:
            findings.append(('boundary', f'scalar[{j}]', 'raises', o.exc))
        else:
            e = arr[j]
            want = [r for part in e.data.as_py() for r in part] if kind == 'multipolygon' else e.data.as_py()
            got = o.vals.data.as_py()
            if got != want:
                findings.append(('boundary', f'scalar[{j}]', 'mismatch', f'got {got} expected {want}'))
    s = z3.Solver()
    res, solver_s, nq = {}, 0.0, 0
    for name, disj in checks:
        s.push()
        s.add(disj)
        st, m, dt = z3_check(s, timeout, seed)
        solver_s += dt
        nq += 1
        res[name] = st
        if m is not None:
            findings.append((name, 'solver', 'differs', {'model': model_ints(m, ts.zvars)}))
        s.pop()
    return {'status': 'unsat' if not findings and all(v == 'unsat' for v in res.values()) else ('sat' if findings else 'unknown'),
            'solver_s': round(solver_s, 3), 'queries': max(nq, 1), 'formula_size': 1 + sum(len(str(d)) for _, d in checks), 'encoded': it.encoded,
            'findings': findings, 'verdicts': res, 'symex_s': round(time.time() - t0 - solver_s, 2)}


def replay_boundary(kind, deriv, finding):
    quantity, form, problem, detail = finding
    model = detail.get('model') if isinstance(detail, dict) else {}
    src = concrete_array(kind, BASE[kind], 'float64', model)
    arr = DERIVS[deriv][0](src)
    n = len(arr)
    wit = {'kind': kind, 'derivation': deriv, 'quantity': 'boundary', 'form': form,
           'elements': [None if arr[j] is None else arr[j].data.as_py() for j in range(n)]}
    try:
        if str(form).startswith('scalar['):
            j = int(form.split('[')[1].split(']')[0])
            got = arr[j].boundary.data.as_py()
            e = arr[j]
            want = [r for part in e.data.as_py() for r in part] if kind == 'multipolygon' else e.data.as_py()
            wit.update(got=got, expected=want)
            return got != want, wit
        b = arr.boundary
        got = [None if b[j] is None else b[j].data.as_py() for j in range(n)]
        want = [None if arr[j] is None else ([r for part in arr[j].data.as_py() for r in part] if kind == 'multipolygon' else arr[j].data.as_py()) for j in range(n)]
        gl, wl = [float(x) for x in b.length], [float(x) for x in arr.length]
        wit.update(got={'elements': got, 'length': gl}, expected={'elements': want, 'length': wl})
        return got != want or any(not _nan_eq(a, c, 1e-12) for a, c in zip(gl, wl)), wit
    except Exception as e:  # noqa: BLE001
        wit['got'] = f'raises {type(e).__name__}: {str(e)[:200]}'
        return True, wit


def run_boundary(check, pool, Task, pid='C14'):
    derivs = ['identity', 'slice[1:]', 'take_fill[0,NA,2]'] + (['concat[2:]+[:2]', 'pickle(slice)[1:]'] if check.tier == 'thorough' else [])
    tasks = [Task(f'wrappers:{kind}.boundary {d}', boundary_task, (kind, d), {'seed': check.seed}, timeout=600, meta={'kind': kind, 'deriv': d})
             for kind in ('polygon', 'multipolygon') for d in derivs]
    res = pool(tasks)
    for t in tasks:
        r = res.get(t.name, {'status': 'error', 'detail': 'no result'})
        m = t.meta
        fnd = r.get('findings') or []
        if r['status'] == 'sat' and fnd:
            outcome = []
            for f in fnd:
                try:
                    bad, wit = replay_boundary(m['kind'], m['deriv'], f)
                except Exception as e:  # noqa: BLE001
                    check.harness_error(f"replay of {t.name} failed: {type(e).__name__}: {e}")
                    continue
                if bad:
                    key = finding_key(pid, m['kind'], ('boundary', f[1], f[2], None), wit=wit)
                    outcome.append(check.violation(key, f"{m['kind']} array ({m['deriv']}).boundary [{f[1]}]: {str(wit.get('got'))[:240]} expected {str(wit.get('expected'))[:240]}", wit))
                else:
                    outcome.append('spurious')
            st = 'violated' if any(o in ('new', 'dup') for o in outcome) else ('known-finding' if outcome and all(o == 'known' for o in outcome) else 'inconclusive')
            check.record(t.name, dict(r, status=st), 'wrapper', m)
        else:
            check.record(t.name, r, 'wrapper', m)
