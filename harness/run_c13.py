"""C13 driver: bounds kernels with NaN/inf flags + tagged wrappers of all seven kinds."""
from . import c13, wrappers


def run(check, pool, Task):
    from . import validate
    validate.apply(check, ['bounds_kernels'])
    thorough = check.tier == 'thorough'
    cap = 600
    check.bounds.update({'kernel': 'total_bounds_interleaved(_1d) on <= 4 (6) vertices, bounds_interleaved on <= 3 elements, every coordinate Real with a NaN '
                                   'flag and an infinity flag in {-1,0,+1}', 'wrappers': '<= 5 elements per array incl. missing and empty, derivations listed in the obligations'})
    check.assumptions += ['comparison-only code: Real-valued results transfer to floats', 'NaN/inf flags are not used for integer coordinate subtypes']
    tasks = []
    for k in ((0, 1, 2, 4) if not thorough else (0, 1, 2, 3, 4, 6)):
        tasks.append(Task(f'kernel:total_bounds_interleaved(+_1d) vertices={k}', c13.q_total_bounds, (k,), {'seed': check.seed}, timeout=cap, meta={'kind': 'total', 'k': k}))
    for es, lead in (([1], 0), ([0, 2], 1), ([2, 0, 1], 0), ([3, 2], 2)) + ((([2, 2, 2], 1), ([4, 0, 0, 1], 3)) if thorough else ()):
        tasks.append(Task(f'kernel:bounds_interleaved elements={es} lead={lead}', c13.q_bounds_rows, (es,), {'lead': lead, 'seed': check.seed}, timeout=cap,
                          meta={'kind': 'rows', 'es': es, 'lead': lead}))
    res = pool(tasks)
    for t in tasks:
        r = res.get(t.name, {'status': 'error', 'detail': 'no result'})
        m = t.meta
        if r['status'] == 'sat':
            try:
                bad, wit = (c13.replay_total(m['k'], r['model']) if m['kind'] == 'total' else c13.replay_rows(m['es'], m['lead'], r['model']))
            except Exception as e:  # noqa: BLE001
                bad, wit = False, {'exception': repr(e)}
            if bad:
                v = check.violation(f"C13:kernel:{m['kind']}", f"bounds kernel disagrees with finite-only min/max: {wit}", wit)
                check.record(t.name, dict(r, status='known-finding' if v == 'known' else 'violated'), 'kernel', m)
            else:
                check.record(t.name, dict(r, status='inconclusive', detail=f'counterexample did not reproduce: {wit}'), 'kernel', m)
        else:
            check.record(t.name, r, 'kernel', m)
    derivs = ['identity', 'slice[1:]', 'slice[1:3]', 'head[:2]', 'take[2,0,-1]', 'take_fill[0,NA,2]', 'concat[2:]+[:2]', 'empty[:0]'] + (
        ['pickle(slice)[1:]', 'reverse[::-1]', 'slice[1:][1:]', 'mask'] if thorough else [])
    wrappers.run_arrays(check, pool, Task, 'C13', ('bounds', 'total_bounds'), derivs=derivs, dtypes=('float64',), flags=True)
    wrappers.run_arrays(check, pool, Task, 'C13', ('bounds', 'total_bounds'), derivs=['slice[1:]'], dtypes=wrappers.DTYPES_ALL[1:] if thorough else ('int16', 'float32'))

    from . import glue
    glue.run(check, pool, Task, ('polygon', 'point'))
    # the Dask version: total_bounds over partition bounds (the only repository code in it; partition bounds per C13 above)
    from . import c06
    from .run_c06 import replay_tb
    tasks = [Task(f'DaskGeoSeries.total_bounds partitions={p}', c06.q_total_bounds, (p,), timeout=300, meta={'part': p}) for p in ([[0, 1], [2]], [[0], [], [1]], [[], [0]], [[], []])]
    res = pool(tasks)
    for t in tasks:
        r = res.get(t.name, {'status': 'error', 'detail': 'no result'})
        if r['status'] == 'sat':
            bad, wit = replay_tb(t.meta['part'], r['model'])
            if bad:
                v = check.violation('C13:dask:total_bounds', f"Dask total_bounds {wit['got']} but the rows give {wit['expected']}", wit)
                check.record(t.name, dict(r, status='known-finding' if v == 'known' else 'violated'), 'query', t.meta)
            else:
                check.record(t.name, dict(r, status='inconclusive', detail='did not reproduce'), 'query', t.meta)
        else:
            check.record(t.name, r, 'query', t.meta)


def replay(path):
    import json
    print(json.dumps(json.load(open(path))['witness'], indent=1)[:3000])
    return 0
