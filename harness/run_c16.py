"""C16 driver: derived arrays hold the same elements and behave like fresh ones (solver part).

Derivation histories run natively (the real __getitem__/take/_concat_same_type/copy/pickle) on tagged arrays of
all seven kinds; the elements of the result are compared with the reference selection (tag identity) and every
derived quantity is evaluated symbolically on the derived array and compared, for all coordinate values, with the
canonical value of each element."""
from . import wrappers as W

ALLQ = ('isna', 'bounds', 'total_bounds', 'intersects_bounds', 'length', 'area')


def run(check, pool, Task):
    from . import validate
    validate.apply(check, ['box_kernels', 'bounds_kernels', 'measures', 'point_kernels'])
    thorough = check.tier == 'thorough'
    small = [d for d in W.DERIVS if not d.startswith('big:')]
    derivs = small if thorough else W.QUICK_DERIVS + ['slice[1:][1:]', 'mask', 'step[::2]', 'take[-2,-1]', 'take[-1,0,1]', 'getitem[[-2,-1]]', 'slice[::-2]', 'iter', 'slice[3:1]', 'slice[-1:2]', 'slice[3::-2]']
    check.bounds.update({'arrays': '5 elements per kind incl. one missing and one empty element', 'derivations': derivs,
                         'depth': 'histories of depth <= 3 (e.g. pickle(slice)[1:], take(concat), slice[1:][1:])',
                         'quantities': list(ALLQ) + ['PointArray.intersects(shape)', 'hilbert_distance (under C08)'],
                         'outside': "'invalid requests raise the errors pandas expects' and Series/DataFrame wrapping (pandas; covered by the existing conformance suite)"})
    check.assumptions += ['multiplication uninterpreted: a derived array and the fresh copy of an element feed the same kernel with the same symbolic data',
                          'native code (pyarrow/numpy data movement) is parametric in the coordinate values: it only moves tags']
    W.run_arrays(check, pool, Task, 'C16', ALLQ, derivs=derivs, dtypes=('float64',))
    W.run_arrays(check, pool, Task, 'C16', ALLQ, derivs=['slice[1:]', 'take_fill[0,NA,2]'] if not thorough else ['slice[1:]', 'take_fill[0,NA,2]', 'concat[2:]+[:2]', 'pickle(slice)[1:]'],
                 dtypes=('int32', 'float32') if not thorough else W.DTYPES_ALL[1:])
    W.run_arrays(check, pool, Task, 'C16', ('isna', 'bounds', 'length', 'intersects_bounds'), kinds=list(W.BIG) if thorough else ['point', 'line', 'polygon'],
                 derivs=W.BIG_DERIVS if thorough else ['big:slice[8:]', 'big:slice[3:][5:]', 'big:slice[16:]', 'big:pickle(slice[8:])', 'big:slice[::-2]'], label='wrappers-big')
    W.run_point_intersects(check, pool, Task, 'C16')
    try:
        from . import c08
    except ImportError:
        return
    c08.run_independence(check, pool, Task, 'C16')


def replay(path):
    import json
    print(json.dumps(json.load(open(path))['witness'], indent=1)[:3000])
    return 0
