"""C17 driver: missing and empty geometries are inert.

Arrays with inert rows (missing, empty, and - through a NaN flag on every coordinate - elements without any finite
coordinate) at every position pattern; every per-row result must equal the canonical value of the row alone (so the
inert rows change nothing for the others) and the inert rows report False / NaN.  R-tree and cx with NaN rows."""
from . import c03, c04
from . import wrappers as W

INERT = {
    'point': [[None, 'P', 'P'], ['P', 'P', None], [None, None], ['P', None, None, 'P']],
    'multipoint': [[None, 2, 0, 1], [2, 1, 0, None], [None, 0], [1, None, 0, 0, 2]],
    'line': [[None, 2, 0, 3], [2, 3, None, 0], [None, 0, None], [2, None, 0, 0, 3]],
    'ring': [[None, 3, 0], [3, 0, None], [None, 0]],
    'multiline': [[None, [2], [], [2, 2]], [[2, 2], [], None], [None, []], [[2], None, [], [0], [3]]],
    'polygon': [[None, [3], [], [3, 3]], [[3], [], None], [None, []], [[3], None, [], [0], [3]]],
    'multipolygon': [[None, [[3]], [], [[3], [3]]], [[[3]], [], None], [None, []], [[[3]], None, [], [[]], [[3]]]],
}


def run(check, pool, Task):
    from . import validate
    validate.apply(check, ['box_kernels', 'bounds_kernels', 'rtree'])
    thorough = check.tier == 'thorough'
    allq = ('isna', 'bounds', 'total_bounds', 'intersects_bounds', 'length', 'area')
    check.bounds.update({'arrays': 'inert rows first / last / all rows / a run of consecutive rows, <= 5 rows; every coordinate additionally carries a NaN flag, '
                                   'so elements without any finite coordinate are covered symbolically',
                         'rtree': 'n <= 3 rows with a NaN flag per row, every page size', 'cx': 'n <= 2 (3) rows with NaN flags, with and without index',
                         'outside': 'Hilbert packing and the pandas merges of sjoin; Dask beyond total_bounds and cx (see C06)'})
    check.assumptions += ['arbitrary (also non-exact) coordinates are covered by the relational form: no oracle is needed, products are uninterpreted']
    bases = {k: (v if thorough else v[:3]) for k, v in INERT.items()}
    W.run_arrays(check, pool, Task, 'C17', allq, derivs=['identity'], dtypes=('float64',), flags='nan', bases=bases, inert=True, label='inert')
    W.run_arrays(check, pool, Task, 'C17', allq, derivs=['slice[1:]', 'take_fill[0,NA,2]'] if thorough else ['slice[1:]'], dtypes=('float64',), flags='nan', inert=True, label='inert')
    # NaN and infinity flags: an element made of infinities has no finite coordinate either
    infb = {'line': [[2, None]], 'ring': [[3]]} if not thorough else {'line': [[2, None]], 'ring': [[3]], 'multiline': [[[2], None]], 'polygon': [[[3]]]}
    W.run_arrays(check, pool, Task, 'C17', ('intersects_bounds',), kinds=list(infb), derivs=['identity'], dtypes=('float64',), flags=True, bases=infb, inert=True, label='inert(NaN+inf)')
    W.run_point_intersects(check, pool, Task, 'C17')
    W.run_point_intersects_inert(check, pool, Task, 'C17')
    # spatial index and cx with NaN rows
    cap = 900
    tasks = []
    fam = [(1, 1, [0]), (2, 1, [0, 1]), (2, 2, [1, 0]), (3, 2, [0, 1, 2]), (3, 3, [2, 0, 1])] + ([(3, 1, [0, 1, 2]), (4, 2, [3, 2, 1, 0])] if thorough else [])
    for n, ps, pm in fam:
        for mode in ('covers', 'intersects'):
            tasks.append(Task(f'rtree with NaN rows n={n} page={ps} perm={pm} {mode}', c03.explore, (n, ps), {'dims': 2, 'nan_rows': True, 'perm': pm, 'mode': mode, 'budget_s': cap - 30},
                              timeout=cap, meta={'kind': 'rtree', 'n': n, 'page_size': ps, 'perm': pm, 'mode': mode}))
    for n, ps, wi, par in [(1, 1, True, False), (2, 1, True, False), (2, 2, True, True), (2, 1, False, False), (3, 1, False, True)] + ([(3, 2, True, False)] if thorough else []):
        tasks.append(Task(f'cx with inert rows n={n} page={ps} index={wi} parent={par}', c04.q_getitem, (n, ps), {'with_index': wi, 'parent': par, 'nan_rows': True, 'budget_s': cap - 30},
                          timeout=cap, meta={'kind': 'cx', 'n': n, 'ps': ps, 'wi': wi, 'par': par}))
    from . import c06
    for p in ([[0, 1], [2]], [[0], [], [1]], [[], [0]]):
        tasks.append(Task(f'Dask total_bounds with inert rows / partitions, partitions={p}', c06.q_total_bounds, (p,), timeout=300, meta={'kind': 'dask-tb', 'part': p}))
    for p in ([[0, 1], [2]], [[0], [], [1]]):
        tasks.append(Task(f'Dask cx with inert rows, partitions={p}', c06.q_cx, (p,), {'which': 'cx', 'budget_s': cap - 30}, timeout=cap, meta={'kind': 'dask-cx', 'part': p}))
    res = pool(tasks)
    for t in tasks:
        r = res.get(t.name, {'status': 'error', 'detail': 'no result'})
        m = t.meta
        if m['kind'] == 'dask-tb' and r['status'] == 'sat':
            from .run_c06 import replay_tb
            bad, wit = replay_tb(m['part'], r['model'])
            if bad:
                v = check.violation('C17:dask:total_bounds', f"Dask total_bounds {wit['got']} but the non-inert rows give {wit['expected']}", wit)
                check.record(t.name, dict(r, status='known-finding' if v == 'known' else 'violated'), 'query', m)
            else:
                check.record(t.name, dict(r, status='inconclusive', detail='did not reproduce'), 'query', m)
            continue
        if m['kind'] == 'dask-cx' and r['status'] == 'violated':
            bad, wit = c06.replay_cx(m['part'], 'cx', r['model'], r.get('rect', False))
            if bad:
                v = check.violation('C17:dask:cx', f"Dask cx returned rows {wit.get('got')} but exactly rows {wit.get('expected')} intersect", wit)
                check.record(t.name, dict(r, status='known-finding' if v == 'known' else 'violated'), 'paths', m)
            else:
                check.record(t.name, dict(r, status='inconclusive', detail=f'did not reproduce: {str(wit)[:200]}'), 'paths', m)
            continue
        if r['status'] == 'violated' and m['kind'] == 'rtree':
            ok, wit = c03.replay(r, m['n'], m['page_size'], 2, True, m['perm'], m['mode'])
            if ok:
                key = c03.classify(wit).replace('C03', 'C17')
                v = check.violation(key, f"R-tree {m['mode']}: got {wit['got']} expected {wit['expected']}", wit)
                check.record(t.name, dict(r, status='known-finding' if v == 'known' else 'violated'), 'paths', m)
            else:
                check.record(t.name, dict(r, status='inconclusive', detail='did not reproduce on the real code'), 'paths', m)
        elif r['status'] == 'violated':
            bad, wit = c04.replay_getitem(m['n'], m['ps'], m['wi'], m['par'], r['model'], rect=r.get('rect', False))
            if bad:
                v = check.violation(f"C17:cx:{'index' if m['wi'] else 'no-index'}", f"cx selected {wit.get('got')} expected {wit.get('expected')}", wit)
                check.record(t.name, dict(r, status='known-finding' if v == 'known' else 'violated'), 'paths', m)
            else:
                check.record(t.name, dict(r, status='inconclusive', detail=f'did not reproduce: {str(wit)[:200]}'), 'paths', m)
        else:
            check.record(t.name, r, 'paths', m)


def replay(path):
    import json
    print(json.dumps(json.load(open(path))['witness'], indent=1)[:3000])
    return 0
