"""C03 driver: families of (n rows, page size, dimension, key permutation, NaN flags, query kind)."""
import itertools
import random

from . import c03


def perms_for(n, tier, seed):
    ident = list(range(n))
    if n <= 1:
        return [ident]
    allp = [list(p) for p in itertools.permutations(range(n))]
    if n <= 3 or (tier == 'thorough' and n <= 4):
        return allp
    rnd = random.Random(seed)
    out = [ident, ident[::-1], ident[1:] + ident[:1]]
    if tier == 'thorough':
        out += rnd.sample(allp, 3)
    return [list(x) for x in {tuple(p) for p in out}]


def plan(tier, seed):
    """-> list of (n, page_size, dims, nan_rows, perm, mode)"""
    fam = []

    def add(dims, n, nanr, pages, perms, modes=('covers', 'intersects')):
        for ps in pages:
            for pm in perms:
                for mode in modes:
                    fam.append((n, ps, dims, nanr, list(pm), mode))

    def ident(n): return list(range(n))
    def rev(n): return list(range(n))[::-1]
    def rot(n): return list(range(1, n)) + [0]
    allp = lambda n: [list(p) for p in itertools.permutations(range(n))]   # noqa: E731
    rnd = random.Random(seed)
    add(2, 0, False, [1], [[]])
    add(2, 1, False, [1, 2], [[0]])
    add(2, 2, False, [1, 2, 3], allp(2))
    add(2, 3, False, [1, 2, 3, 4], allp(3), ('covers',))
    add(2, 3, False, [1, 2, 3, 4], [ident(3), rev(3)], ('intersects',))
    add(2, 1, True, [1, 2], [[0]])
    add(2, 2, True, [1, 2, 3], allp(2))
    add(1, 3, True, [1, 2, 4], [ident(3), rot(3)])
    add(3, 2, True, [1, 2], allp(2))
    if tier == 'quick':
        add(2, 4, False, [2, 3, 5], [rev(4), rot(4)], ('covers',))
        add(2, 4, False, [2, 3, 5], [ident(4)], ('intersects',))
        add(2, 3, True, [1, 2, 3, 4], [ident(3), rev(3), rot(3)], ('covers',))
        add(2, 3, True, [1, 2, 3, 4], [ident(3)], ('intersects',))
        add(1, 4, False, [1, 3], [rev(4)])
    else:
        p4 = [ident(4), rev(4), rot(4)] + rnd.sample(allp(4), 2)
        p4 = [list(x) for x in {tuple(p) for p in p4}]
        add(2, 4, False, [1, 2, 3, 4, 5], p4, ('covers',))
        add(2, 4, False, [1, 2, 3, 4, 5], [ident(4), rev(4)], ('intersects',))
        add(2, 3, True, [1, 2, 3, 4], allp(3))
        add(2, 4, True, [1, 2, 3, 5], [ident(4), rev(4), rot(4)], ('covers',))
        add(2, 4, True, [2, 3], [ident(4)], ('intersects',))
        add(2, 5, False, [3, 6], [rev(5)], ('covers',))
        add(1, 4, True, [1, 2, 3, 5], [ident(4), rev(4)])
        add(1, 5, False, [1, 2, 3, 6], [rot(5)])
        add(3, 3, False, [1, 2, 4], [rev(3)])
        add(3, 3, True, [2], [ident(3)], ('covers',))
    return fam


def run(check, pool, Task):
    from . import validate
    validate.apply(check, ['rtree'])
    fam = plan(check.tier, check.seed)
    cap = 3600 if check.tier == 'thorough' else 900
    check.bounds.update({'rows': 'n <= 4 (quick) / n <= 5 (thorough), n = 0 included', 'dimensions': '1, 2, 3',
                         'page_size': 'every value in 1..n+1 (larger sizes give the same single-leaf tree)',
                         'coordinates': 'unbounded reals (comparison-only code), lo <= hi per dimension, query lo <= hi',
                         'curve_order': 'arbitrary permutation instead of the Hilbert order, keys spread over 0..2^(d p)-1, p = 10 and the largest orders whose distances fit an int64 (d=1 p=62, d=2 p=31, d=3 p=21): all permutations for n<=3 (n<=4 thorough), identity/reversal/rotation(+sampled) beyond'})
    check.stubs += ['_distances_from_bounds -> arbitrary key permutation (the actual curve is C07/C08)',
                    '_NumbaRtree(...) jitclass constructor -> interpreted instance with the same fields']
    check.assumptions += ['rows with undefined bounds have all 2d entries NaN (as produced by a missing/empty geometry)',
                          'box rows satisfy lo <= hi in every dimension', 'query box satisfies lo <= hi (degenerate allowed)']
    tasks = []
    for (n, ps, dims, nanr, pm, mode) in fam:
        name = f"rtree d={dims} n={n} page={ps} nan={int(nanr)} perm={''.join(map(str, pm))} {mode}"
        sq = (n <= 2) or (n == 3 and pm == list(range(n)) and ps in (1, 2))       # second, covering query on the same index object
        name += ' +2nd-query' if sq else ''
        tasks.append(Task(name, c03.explore, (n, ps), {'dims': dims, 'nan_rows': nanr, 'perm': pm, 'mode': mode, 'budget_s': cap - 30, 'second_query': sq},
                          timeout=cap, meta={'n': n, 'page_size': ps, 'dims': dims, 'nan_rows': nanr, 'perm': pm, 'mode': mode}))
    # the largest curve orders whose distances fit an int64: the keys handed to the build are spread over 0..2^(d p)-1
    big = [(3, 2, 2, False, [0, 1, 2], 31), (3, 1, 2, False, [2, 0, 1], 31), (3, 2, 3, False, [2, 1, 0], 21), (3, 4, 1, False, [1, 2, 0], 62)]
    if check.tier == 'thorough':
        big += [(4, 2, 2, True, [3, 1, 0, 2], 31), (4, 3, 3, False, [0, 2, 1, 3], 21)]
    for (n, ps, dims, nanr, pm, p) in big:
        tasks.append(Task(f"rtree d={dims} n={n} page={ps} nan={int(nanr)} perm={''.join(map(str, pm))} covers curve order p={p}", c03.explore, (n, ps),
                          {'dims': dims, 'nan_rows': nanr, 'perm': pm, 'mode': 'covers', 'budget_s': cap - 30, 'p': p}, timeout=cap,
                          meta={'n': n, 'page_size': ps, 'dims': dims, 'nan_rows': nanr, 'perm': pm, 'mode': 'covers', 'p': p}))
    tasks.sort(key=lambda t: -(t.meta['n'] * 10 + (5 - t.meta['page_size'])))
    res = pool(tasks)
    total_paths = 0
    for t in tasks:
        r = res.get(t.name, {'status': 'error', 'detail': 'no result'})
        m = t.meta
        total_paths += r.get('paths') or 0
        if r['status'] == 'violated':
            ok, wit = c03.replay(r, m['n'], m['page_size'], m['dims'], m['nan_rows'], m['perm'], m['mode'], m.get('p', 10))
            if ok:
                key = c03.classify(wit)
                v = check.violation(key, f"R-tree {m['mode']} disagrees with the box oracle: got {wit['got']} expected {wit['expected']} "
                                         f"(total_bounds {wit['total_bounds_got']} vs {wit['total_bounds_expected']})", wit)
                check.record(t.name, dict(r, status='known-finding' if v == 'known' else 'violated'), 'paths', m)
            else:
                check.record(t.name, dict(r, status='inconclusive', detail='symbolic counterexample did not reproduce on the real code'), 'paths', m)
        else:
            check.record(t.name, r, 'paths', m)
    check.extra['paths_explored'] = total_paths
    check.extra['states'] = total_paths


def replay(path):
    import json
    import numpy as np
    w = json.load(open(path))['witness']
    b = np.array([[float(x) if not isinstance(x, str) else float('nan') for x in row] for row in w['bounds']])
    t = c03.real_tree(b, w['page_size'], w.get('perm'))
    q = tuple(w['query'])
    print('covers_overlaps', t.covers_overlaps(q), 'intersects', t.intersects(q), 'expected', w['expected'])
    return 0
