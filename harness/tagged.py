"""Tagged geometry arrays: real spatialpandas/pyarrow arrays whose coordinates are distinct concrete *tags*.

Native code (pyarrow, numpy data movement, the real __getitem__/take/concat/pickle) only moves tags around; the
interpreter lifts every tag it reads from a native buffer to the symbol it stands for (pysym.core.Interp.lift), so
the repository's wrapper methods and kernels are executed with symbolic coordinates while offsets, validity bitmaps
and slices stay pyarrow's own.
"""
import numpy as np
import z3

from pysym.core import Interp
from pysym.values import Num

TAG_BASE = 12007
TAG_STEP = 7
TAG_MAX = 32760

KINDS = ['point', 'multipoint', 'line', 'ring', 'multiline', 'polygon', 'multipolygon']
NEST = {'point': 0, 'multipoint': 1, 'line': 1, 'ring': 1, 'multiline': 2, 'polygon': 2, 'multipolygon': 3}


def array_class(kind):
    import spatialpandas.geometry as sg
    return {'point': sg.PointArray, 'multipoint': sg.MultiPointArray, 'line': sg.LineArray, 'ring': sg.RingArray,
            'multiline': sg.MultiLineArray, 'polygon': sg.PolygonArray, 'multipolygon': sg.MultiPolygonArray}[kind]


class TagSpace:
    """allocates tags and the symbols they stand for"""
    def __init__(self, sort='int', flags=False, prefix='t'):
        self.n = 0
        self.sort = sort
        self.flags = flags
        self.prefix = prefix
        self.sym = {}       # tag value -> Num
        self.zvars = []
        self.cons = []

    def fresh(self):
        tag = TAG_BASE + TAG_STEP * self.n
        if tag > TAG_MAX:
            raise RuntimeError("tag space exhausted")
        name = f'{self.prefix}{self.n}'
        self.n += 1
        v = z3.Int(name) if self.sort == 'int' else z3.Real(name)
        self.zvars.append(v)
        if self.flags == 'nan':
            nan = z3.Bool(name + '_nan')
            self.zvars += [nan]
            num = Num(v, nan)
        elif self.flags:
            nan = z3.Bool(name + '_nan')
            inf = z3.Int(name + '_inf')
            self.cons.append(z3.And(inf >= -1, inf <= 1))
            self.zvars += [nan, inf]
            num = Num(v, nan, inf)
        else:
            num = Num(v)
        self.sym[tag] = num
        return tag

    def install(self, it: Interp):
        for tag, num in self.sym.items():
            it.tags[tag] = num          # 12007 == 12007.0 hash-equal: one entry serves ints and floats
        return it

    def symbol(self, tag):
        return self.sym[int(tag)]


CLOSED = {'ring', 'polygon', 'multipolygon'}


def verts(ts, k, closed=False):
    """k distinct vertices -> flat list of tags and the list of (x, y) symbol pairs; closed: the first vertex is
    repeated at the end (same tags, hence the same symbols), the representation invariant of rings"""
    flat, pts = [], []
    for _ in range(k):
        tx, ty = ts.fresh(), ts.fresh()
        flat += [tx, ty]
        pts.append((ts.symbol(tx), ts.symbol(ty)))
    if closed and k:
        flat += flat[:2]
        pts.append(pts[0])
    return flat, pts


def build_element(ts, kind, spec):
    """spec -> (python value for the array constructor, symbolic structure)

    symbolic structure: point: (x, y) | multipoint/line/ring: [pts] | multiline/polygon: [[pts], ...] |
    multipolygon: [[[pts], ...], ...]; None for a missing element"""
    if spec is None:
        return None, None
    if kind == 'point':
        flat, pts = verts(ts, 1)
        return flat, pts[0]
    closed = kind in CLOSED
    if NEST[kind] == 1:
        flat, pts = verts(ts, spec, closed)
        return flat, pts
    if NEST[kind] == 2:
        val, sym = [], []
        for k in spec:
            flat, pts = verts(ts, k, closed)
            val.append(flat)
            sym.append(pts)
        return val, sym
    val, sym = [], []
    for part in spec:
        pv, psym = [], []
        for k in part:
            flat, pts = verts(ts, k, closed)
            pv.append(flat)
            psym.append(pts)
        val.append(pv)
        sym.append(psym)
    return val, sym


def build_array(ts, kind, specs, dtype='float64'):
    """-> (real geometry array, list of symbolic element structures)"""
    vals, syms = [], []
    for sp in specs:
        v, s = build_element(ts, kind, sp)
        vals.append(v)
        syms.append(s)
    cls = array_class(kind)
    arr = cls(vals, dtype=dtype)
    return arr, syms


def element_tags(kind, elem):
    """tags (as python numbers) of a real scalar element / None, in the nesting of build_element's structure"""
    if elem is None:
        return None
    data = elem.data.as_py()
    if kind == 'point':
        return [float(x) for x in np.frombuffer(data, dtype=elem.numpy_dtype)]
    return data


def symbolic_element(ts, kind, tags):
    """nested tag lists of an element -> symbolic structure (same shape as build_element's)"""
    if tags is None:
        return None

    def pts(flat):
        return [(ts.symbol(flat[i]), ts.symbol(flat[i + 1])) for i in range(0, len(flat), 2)]
    if kind == 'point':
        return pts(tags)[0]
    if NEST[kind] == 1:
        return pts(tags)
    if NEST[kind] == 2:
        return [pts(r) for r in tags]
    return [[pts(r) for r in part] for part in tags]


def array_elements(ts, kind, arr):
    """symbolic structures of every element of a (derived) real array, read natively through __getitem__"""
    return [symbolic_element(ts, kind, element_tags(kind, arr[i])) for i in range(len(arr))]


def rings_of(kind, sym):
    """all vertex sequences (parts of a line kind / rings of a polygon kind) of a symbolic element"""
    if sym is None:
        return []
    if kind == 'point':
        return [[sym]]
    if NEST[kind] == 1:
        return [sym]
    if NEST[kind] == 2:
        return sym
    return [r for part in sym for r in part]


def coords_of(kind, sym):
    return [c for r in rings_of(kind, sym) for v in r for c in v]
