"""C06 (partial) - the repository's own Dask glue answers like pandas.

A: DaskGeoSeries.total_bounds == union of the non-inert rows' bounds (NaN if none) when every partition's bounds are
   the NaN-skipping union of its rows (C13), incl. empty and all-inert partitions.
B: _DaskCoordinateIndexer / _DaskPartitionCoordinateIndexer through _BaseCoordinateIndexer.__getitem__ with the real
   partition-level R-tree code (fork mode): rows returned by Dask cx == {i : I_i}; cx_partitions returns whole
   partitions containing every such row.
C: the pre-filter loop of _sjoin_dask_pandas never drops a right row that a left row of the partition can match.
Dask collections, delayed objects and the per-partition pandas operations are stubs (list operations / contracts).
"""
import time

import numpy as np
import z3

from pysym import values
from pysym.core import Explorer, Infeasible, Interp, Stub
from pysym.values import Num, np_minmax, tz, wrapb

from .c03 import make_interp
from .framework import model_ints

DK = 'spatialpandas.dask'
GB = 'spatialpandas.geometry.base'
RT = 'spatialpandas.spatialindex.rtree'
SJ = 'spatialpandas.tools.sjoin'


class Obj:
    _pysym_model = True

    def __init__(self, **kw):
        self.__dict__.update(kw)


class FakeBoundsFrame:
    """the partition_bounds DataFrame (columns x0, y0, x1, y1, one row per partition) as far as it is read"""
    _pysym_model = True

    def __init__(self, cols):
        self.cols = cols
        self.columns = ['x0', 'y0', 'x1', 'y1']

    def __getitem__(self, c):
        return self.cols[c]

    def __len__(self):
        return len(self.cols['x0'])

    def to_numpy(self, dtype=None, copy=False, na_value=None):
        out = np.empty((len(self), 4), dtype=object)
        for j, c in enumerate(self.columns):
            out[:, j] = self.cols[c]
        return out

    @property
    def values(self):
        return self.to_numpy()


def part_bounds(rows_b, rows_nan, members):
    """NaN-skipping union of the member rows' bounds -> 4 Nums (NaN when no live member)"""
    if not members:
        nanv = float('nan')
        return [Num(0, True), Num(0, True), Num(0, True), Num(0, True)]
    out = []
    for col, is_min in ((0, True), (1, True), (2, False), (3, False)):
        out.append(np_minmax([Num(rows_b[i][col], rows_nan[i]) for i in members], is_min, skipnan=True))
    return out


def sym_rows(n, nan_rows=True):
    b = [[z3.Real(f'b{i}_{j}') for j in range(4)] for i in range(n)]
    nan = [z3.Bool(f'nan{i}') if nan_rows else False for i in range(n)]
    cons = [r[0] <= r[2] for r in b] + [r[1] <= r[3] for r in b]
    return b, nan, cons


def q_total_bounds(partition, timeout=120):
    """partition: list of lists of row ids"""
    values.set_mul_mode('exact')
    t0 = time.time()
    it = Interp()
    n = sum(len(p) for p in partition)
    b, nan, cons = sym_rows(n)
    pb = [part_bounds(b, nan, p) for p in partition]
    cols = {}
    for ci, name in enumerate(('x0', 'y0', 'x1', 'y1')):
        arr = np.empty(len(partition), dtype=object)
        for k in range(len(partition)):
            arr[k] = pb[k][ci]
        cols[name] = arr
    selfobj = Obj(partition_bounds=FakeBoundsFrame(cols))
    f = it.func(DK, 'DaskGeoSeries.total_bounds')
    tb = it.call(f, [selfobj])
    from .c13 import minmax_spec
    rows = [[Num(b[i][c], nan[i]) for i in range(n)] for c in range(4)]
    spec = z3.And(minmax_spec(tb[0], rows[0], True), minmax_spec(tb[1], rows[1], True), minmax_spec(tb[2], rows[2], False), minmax_spec(tb[3], rows[3], False))
    s = z3.Solver()
    s.add(*cons)
    s.add(z3.Not(spec))
    from .framework import formula_size, z3_check
    st, m, dt = z3_check(s, timeout)
    out = {'status': st, 'solver_s': round(dt, 3), 'formula_size': formula_size(s), 'encoded': it.encoded, 'symex_s': round(time.time() - t0 - dt, 2)}
    if m is not None:
        out['model'] = model_ints(m, [v for r in b for v in r] + [x for x in nan if x is not False])
    return out


def q_partition_sindex(np_=3):
    """DaskGeoSeries.partition_sindex: the partition-level index is built from the bounds of ALL partitions in
    partition order (its keys are partition numbers), whatever their values"""
    it = Interp()
    rows = np.empty((np_, 4), dtype=object)
    for i in range(np_):
        for j in range(4):
            rows[i, j] = Num(z3.Real(f'pb{i}_{j}'), z3.Bool(f'pnan{i}'))
    seen = []

    class Frame(FakeBoundsFrame):
        def __init__(self, arr, tag):
            self.arr, self.tag = arr, tag

        @property
        def values(self):
            return self.arr

        def to_numpy(self, *a, **k):
            return self.arr

        def dropna(self, *a, **k):
            return Frame(self.arr[:0], 'dropna')        # any row may be NaN: dropping changes the numbering

        def __len__(self):
            return len(self.arr)
    it.stubs['HilbertRtree'] = Stub(lambda b, **kw: seen.append(b) or ('tree', id(b)), 'HilbertRtree(bounds) -> records its argument')
    selfobj = Obj(partition_bounds=Frame(rows, 'full'), _partition_sindex=None)
    f = it.func(DK, 'DaskGeoSeries.partition_sindex')
    it.call(f, [selfobj])
    ok = len(seen) == 1 and isinstance(seen[0], np.ndarray) and seen[0].shape == rows.shape and all(seen[0][idx] is rows[idx] for idx in np.ndindex(rows.shape))
    return {'status': 'holds' if ok else 'violated', 'encoded': it.encoded, 'formula_size': 1, 'queries': 1, 'solver_s': 0.0,
            'detail': None if ok else f'HilbertRtree was built from {[getattr(x, "shape", None) for x in seen]} instead of the {rows.shape} partition bounds'}


class FakePartition:
    """a pandas partition: df.cx[x0:x1, y0:y1] -> the member rows with I_i (C04), recording the key"""
    _pysym_model = True

    def __init__(self, members, I, log):
        self.members, self.I, self.log = members, I, log
        self.cx = self

    def __getitem__(self, key):
        self.log.append(('cx-key', key))
        return ('filtered', self.members)


class FakeDaskFrame:
    _pysym_model = True

    def __init__(self, partitions, I, log, selected=None):
        self.parts, self.I, self.log = partitions, I, log
        self._meta = 'meta'
        self.divisions = 'divisions'
        self.selected = selected
        self.partitions = self

    def __getitem__(self, inds):
        inds = [int(i) for i in inds]
        self.log.append(('partitions', inds))
        return FakeDaskFrame([self.parts[i] for i in inds], self.I, self.log, selected=inds)

    def to_delayed(self):
        return [FakePartition(p, self.I, self.log) for p in self.parts]


class FakeDD:
    _pysym_model = True

    def __init__(self, log):
        self.log = log

    def from_pandas(self, meta, npartitions=1):
        self.log.append(('result', []))
        return ('empty-result',)

    def from_delayed(self, dfs, meta=None, divisions=None):
        self.log.append(('result', list(dfs)))
        return ('result',)


def q_cx(partition, page_size=512, which='cx', nan_rows=True, max_paths=60000, budget_s=600):
    """Dask cx / cx_partitions on rows split into `partition` (list of lists of row ids)"""
    values.set_mul_mode('exact')
    t0 = time.time()
    np_ = len(partition)
    it, mod = make_interp(list(range(np_)))
    import spatialpandas.dask as sd
    from spatialpandas.spatialindex.rtree import HilbertRtree
    n = sum(len(p) for p in partition)
    b, nan, cons = sym_rows(n, nan_rows)
    I = [z3.Bool(f'I{i}') for i in range(n)]
    k = [z3.Real(nm) for nm in ('kx0', 'kx1', 'ky0', 'ky1')]
    qx0, qx1 = z3.If(k[1] < k[0], k[1], k[0]), z3.If(k[1] < k[0], k[0], k[1])
    qy0, qy1 = z3.If(k[3] < k[2], k[3], k[2]), z3.If(k[3] < k[2], k[2], k[3])
    allv = [v for r in b for v in r] + [x for x in nan if x is not False] + I + k
    assumptions = list(cons)
    for i in range(n):
        nn = z3.Not(nan[i]) if nan_rows else z3.BoolVal(True)
        inside = z3.And(b[i][0] >= qx0, b[i][2] <= qx1, b[i][1] >= qy0, b[i][3] <= qy1)
        overlap = z3.And(b[i][2] >= qx0, b[i][0] <= qx1, b[i][3] >= qy0, b[i][1] <= qy1)
        assumptions += [z3.Implies(z3.Not(nn), z3.Not(I[i])), z3.Implies(z3.And(nn, inside), I[i]), z3.Implies(I[i], z3.And(nn, overlap))]
    ex = Explorer(assumptions, max_paths=max_paths)
    it.explorer = ex
    init = it.func(RT, 'HilbertRtree.__init__')
    gi = it.func(GB, '_BaseCoordinateIndexer.__getitem__')
    viol, nq = None, 0
    outcomes = {'empty': 0, 'nonempty': 0}
    cls = sd._DaskCoordinateIndexer if which == 'cx' else sd._DaskPartitionCoordinateIndexer
    while ex.work:
        if ex.paths >= max_paths or time.time() - t0 > budget_s:
            return {'status': 'unknown', 'detail': f'budget exhausted after {ex.paths} paths', 'paths': ex.paths}
        script = ex.work.pop()
        ex.start(script)
        log = []
        pb = np.empty((np_, 4), dtype=object)
        for kk, p in enumerate(partition):
            vals = part_bounds(b, nan, p)
            for c in range(4):
                pb[kk, c] = vals[c]
        it.stubs['dd'] = FakeDD(log)
        try:
            tree = HilbertRtree.__new__(HilbertRtree)
            it.call(init, [tree, pb], {'page_size': page_size})
            frame = FakeDaskFrame([list(p) for p in partition], I, log)
            ind = cls(frame, tree)
            key = (slice(Num(k[0]), Num(k[1])), slice(Num(k[2]), Num(k[3])))
            res = it.call(gi, [ind, key])
        except Infeasible:
            continue
        ex.paths += 1
        conds = []
        if which == 'cx':
            results = [v for t, v in log if t == 'result']
            conds.append(z3.BoolVal(len(results) == 1))
            rows_expr = {i: [] for i in range(n)}      # row -> list of z3 conditions under which it is returned (one per occurrence)
            if len(results) == 1:
                for item in results[0]:
                    if isinstance(item, tuple) and item and item[0] == 'filtered':
                        for i in item[1]:
                            rows_expr[i].append(I[i])
                    elif isinstance(item, FakePartition):
                        for i in item.members:
                            rows_expr[i].append(z3.BoolVal(True))
                    else:
                        conds.append(z3.BoolVal(False))
                for i in range(n):
                    conds.append(z3.BoolVal(len(rows_expr[i]) <= 1))
                    conds.append((z3.Or(*rows_expr[i]) if rows_expr[i] else z3.BoolVal(False)) == I[i])
            for t, key_ in log:
                if t == 'cx-key':
                    xs, ys = key_
                    conds += [Num.lift(xs.start).v == qx0, Num.lift(xs.stop).v == qx1, Num.lift(ys.start).v == qy0, Num.lift(ys.stop).v == qy1]
            outcomes['nonempty' if any(rows_expr[i] for i in range(n)) else 'empty'] += 1
        else:
            sel = [v for t, v in log if t == 'partitions']
            returned = sel[-1] if sel else []
            conds.append(z3.BoolVal(len(sel) <= 1 and returned == sorted(set(returned))))
            for kk, p in enumerate(partition):
                for i in p:
                    if kk not in returned:
                        conds.append(z3.Not(I[i]))
            outcomes['nonempty' if returned else 'empty'] += 1
        ex.solver.push()
        ex.solver.add(*ex.pc)
        ex.solver.add(z3.Not(z3.And(*conds)) if conds else z3.BoolVal(False))
        ts = time.time()
        r = str(ex.solver.check())
        ex.solver_s += time.time() - ts
        nq += 1
        if r == 'sat':
            m = ex.solver.model()
            viol = {'model': model_ints(m, allv), 'log': [(t, str(v)[:160]) for t, v in log], 'rect': False}
            ex.solver.add(*[I[i] == z3.And(z3.Not(nan[i]) if nan_rows else z3.BoolVal(True), b[i][2] >= qx0, b[i][0] <= qx1, b[i][3] >= qy0, b[i][1] <= qy1,
                                           b[i][0] < b[i][2], b[i][1] < b[i][3]) for i in range(n)])
            ex.solver.add(qx0 < qx1, qy0 < qy1)
            if str(ex.solver.check()) == 'sat':
                viol = {'model': model_ints(ex.solver.model(), allv), 'log': [(t, str(v)[:160]) for t, v in log], 'rect': True}
            ex.solver.pop()
            break
        ex.solver.pop()
        if r != 'unsat':
            return {'status': 'unknown', 'detail': 'solver unknown', 'paths': ex.paths}
    out = {'paths': ex.paths, 'queries': ex.checks + nq, 'solver_s': round(ex.solver_s, 2), 'encoded': it.encoded, 'formula_size': ex.paths,
           'outcomes': outcomes, 'symex_s': round(time.time() - t0 - ex.solver_s, 2)}
    if viol:
        out.update(status='violated', **viol)
    elif n and (outcomes['empty'] == 0 or outcomes['nonempty'] == 0):
        out.update(status='error', detail=f'vacuity: {outcomes}')
    else:
        out['status'] = 'holds'
    return out


def replay_cx(partition, which, model, rect, nan_rows=True):
    """real dask frame built partition by partition (rectangles), real cx / cx_partitions, compared with pandas"""
    if not rect:
        return False, {'note': 'counterexample needs an exact predicate different from bounds overlap; no public-API replay built'}
    import dask
    import dask.dataframe as dd
    import pandas as pd
    import spatialpandas as sp
    import spatialpandas.geometry as sg
    n = sum(len(p) for p in partition)
    names = [f'b{i}_{j}' for i in range(n) for j in range(4)] + ['kx0', 'kx1', 'ky0', 'ky1']
    vals = sorted({model[k_] for k_ in names})
    rk = {v: float(i) for i, v in enumerate(vals)}
    g = lambda k_: rk[model[k_]]   # noqa: E731
    kx0, kx1, ky0, ky1 = g('kx0'), g('kx1'), g('ky0'), g('ky1')
    box = (min(kx0, kx1), min(ky0, ky1), max(kx0, kx1), max(ky0, ky1))
    rows, exact = {}, []
    for i in range(n):
        if nan_rows and model.get(f'nan{i}'):
            rows[i] = None
            continue
        x0, y0, x1, y1 = g(f'b{i}_0'), g(f'b{i}_1'), g(f'b{i}_2'), g(f'b{i}_3')
        rows[i] = [[x0, y0, x1, y0, x1, y1, x0, y1, x0, y0]]
        if x1 >= box[0] and x0 <= box[2] and y1 >= box[1] and y0 <= box[3]:
            exact.append(i)
    parts = []
    for p in partition:
        parts.append(sp.GeoDataFrame({'geometry': sg.PolygonArray([rows[i] for i in p], dtype='float64'), 'id': pd.array(list(p), dtype='int64')},
                                     index=pd.Index(list(p), dtype='int64')))
    wit = {'partitions': [list(p) for p in partition], 'rows': rows, 'key': (kx0, kx1, ky0, ky1), 'which': which}
    try:
        with dask.config.set(scheduler='synchronous'):
            ddf = dd.from_delayed([dask.delayed(lambda x: x)(p) for p in parts], meta=parts[0].iloc[:0])
            if which == 'cx':
                got = sorted(int(x) for x in ddf.cx[kx0:kx1, ky0:ky1].compute()['id'])
                wit.update(got=got, expected=exact)
                return got != exact, wit
            got = sorted(int(x) for x in ddf.cx_partitions[kx0:kx1, ky0:ky1].compute()['id'])
            wit.update(got=got, expected_superset_of=exact)
            return not set(exact) <= set(got), wit
    except Exception as e:  # noqa: BLE001
        wit['got'] = f'raises {type(e).__name__}: {str(e)[:300]}'
        return True, wit


# ------------------------------------------------------------------------------------------------ C: sjoin pre-filter
def q_sjoin_prefilter(partition, nr, how='inner', timeout=600, max_paths=40000):
    values.set_mul_mode('exact')
    t0 = time.time()
    it = Interp()
    nl = sum(len(p) for p in partition)
    lb, lnan, lcons = sym_rows(nl)
    rb = [[z3.Real(f'r{i}_{j}') for j in range(4)] for i in range(nr)]
    rnan = [z3.Bool(f'rnan{i}') for i in range(nr)]
    J = [[z3.Bool(f'J{l}_{r}') for r in range(nr)] for l in range(nl)]
    allv = [v for row in lb + rb for v in row] + [x for x in lnan] + rnan + [j for row in J for j in row]
    assumptions = list(lcons) + [row[0] <= row[2] for row in rb] + [row[1] <= row[3] for row in rb]
    for l in range(nl):
        for r in range(nr):
            overlap = z3.And(z3.Not(lnan[l]), z3.Not(rnan[r]), lb[l][2] >= rb[r][0], lb[l][0] <= rb[r][2], lb[l][3] >= rb[r][1], lb[l][1] <= rb[r][3])
            assumptions.append(z3.Implies(J[l][r], overlap))
    ex = Explorer(assumptions, max_paths=max_paths)
    it.explorer = ex
    f = it.func(SJ, '_sjoin_dask_pandas')
    viol, nq = None, 0

    class RightSindex:
        _pysym_model = True

        def intersects(self_, b):
            b = [Num.lift(x) for x in b]
            out = []
            for i in range(nr):
                c = values.And(Num(rb[i][2], rnan[i]) >= b[0], Num(rb[i][0], rnan[i]) <= b[2], Num(rb[i][3], rnan[i]) >= b[1], Num(rb[i][1], rnan[i]) <= b[3])
                if it.truth(c) is True:
                    out.append(i)
            return np.array(out, dtype=np.uint32)

    class Iloc:
        _pysym_model = True

        def __getitem__(self_, sel):
            if isinstance(sel, slice):
                return ('right-rows', [])
            return ('right-rows', [int(x) for x in sel])
    while ex.work:
        if ex.paths >= max_paths or time.time() - t0 > timeout:
            return {'status': 'unknown', 'detail': f'budget exhausted after {ex.paths} paths', 'paths': ex.paths}
        script = ex.work.pop()
        ex.start(script)
        calls = []
        pbs = []
        for kk, p in enumerate(partition):
            vals = part_bounds(lb, lnan, p)
            arr = np.empty(4, dtype=object)
            for c in range(4):
                arr[c] = vals[c]
            pbs.append((kk, Obj(values=arr)))
        left = Obj(to_delayed=lambda: [('left-partition', kk) for kk in range(len(partition))],
                   geometry=Obj(partition_bounds=Obj(iterrows=lambda: list(pbs))), _meta='left-meta')
        right = Obj(geometry=Obj(sindex=RightSindex()), iloc=Iloc())

        def recorder(df, rdf, **kw):
            calls.append((df, rdf, kw))
            return ('joined', df)
        it.stubs['delayed'] = Stub(lambda fn: recorder, 'dask.delayed(f) -> records the call')
        it.stubs['_sjoin_pandas_pandas'] = Stub(lambda *a, **k_: ('meta-join',), 'meta computation')
        it.stubs['from_delayed'] = Stub(lambda dfs, meta=None: ('result', list(dfs)), 'from_delayed')
        it.stubs['from_pandas'] = Stub(lambda meta, npartitions=1: ('result', []), 'from_pandas')
        try:
            it.call(f, [left, right], {'how': how})
        except Infeasible:
            continue
        ex.paths += 1
        conds = []
        seen = {}
        for df, rdf, kw in calls:
            seen[df[1]] = rdf[1]
            conds.append(z3.BoolVal(kw.get('how') == how))
        for kk, p in enumerate(partition):
            passed = seen.get(kk)
            for l in p:
                for r in range(nr):
                    if passed is None or r not in passed:
                        conds.append(z3.Not(J[l][r]))          # a dropped right row must not match any left row of the partition
            if how == 'left':
                conds.append(z3.BoolVal(passed is not None))      # left join keeps every partition
        ex.solver.push()
        ex.solver.add(*ex.pc)
        ex.solver.add(z3.Not(z3.And(*conds)) if conds else z3.BoolVal(False))
        r_ = str(ex.solver.check())
        nq += 1
        if r_ == 'sat':
            viol = {'model': model_ints(ex.solver.model(), allv), 'calls': str(calls)[:300]}
            ex.solver.pop()
            break
        ex.solver.pop()
    out = {'paths': ex.paths, 'queries': ex.checks + nq, 'solver_s': round(ex.solver_s, 2), 'encoded': it.encoded, 'formula_size': ex.paths,
           'symex_s': round(time.time() - t0 - ex.solver_s, 2)}
    out['status'] = 'violated' if viol else 'holds'
    if viol:
        out.update(viol)
    return out
