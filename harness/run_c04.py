"""C04 driver."""
import itertools

from . import c04


def run(check, pool, Task):
    from . import validate
    validate.apply(check, ['rtree'])
    thorough = check.tier == 'thorough'
    cap = 3000 if thorough else 900
    check.bounds.update({'get_bounds': 'all 16 present/omitted patterns of the four slice ends x index/no index, scalar instead of slice, step; key values and total extent '
                                       'arbitrary reals, total extent possibly NaN',
                         'getitem': 'n <= 3 rows (4 thorough) incl. n = 0, every page size in 1..n+1, identity and reversed key order, with and without index, '
                                    'array and parent (frame/series) paths; fully specified symbolic key (reversed ends allowed)',
                         'index_extent': 'HilbertRtree(bounds).total_bounds for n <= 3 rows (4 thorough), rows possibly all-NaN, given key orders',
                         'outside': 'that iloc/mask selection of the parent preserves labels and other columns (pandas); GeoSeries/GeoDataFrame property plumbing'})
    check.stubs += ['obj.intersects_bounds(box, inds) -> uninterpreted Bool I_i per row with the bounding-box contract: inert => not I_i; bbox inside box => I_i; '
                    'I_i => bbox overlaps box (C01/C13)', 'obj[sel] / parent.iloc[sel] / parent[mask] -> record the selection',
                    '_distances_from_bounds -> arbitrary key permutation; _NumbaRtree -> interpreted instance']
    tasks = []
    for pat in itertools.product((True, False), repeat=4):
        for wi in (False, True):
            tasks.append(Task(f'_get_bounds present={pat} index={wi}', c04.q_get_bounds, (pat, wi), {'tb_nan': False}, timeout=cap,
                              meta={'kind': 'gb', 'pat': pat, 'wi': wi, 'scalar': (False, False)}))
    for pat in ((True, False, True, True), (False, False, False, False), (False, True, False, True)):
        tasks.append(Task(f'_get_bounds present={pat} index=True, total extent possibly NaN', c04.q_get_bounds, (pat, True), {'tb_nan': True}, timeout=cap,
                          meta={'kind': 'gb', 'pat': pat, 'wi': True, 'scalar': (False, False)}))
    for sc in ((True, False), (False, True), (True, True)):
        tasks.append(Task(f'_get_bounds scalar={sc}', c04.q_get_bounds, ((True, True, True, True), True), {'scalar': sc}, timeout=cap,
                          meta={'kind': 'gb', 'pat': (True, True, True, True), 'wi': True, 'scalar': sc}))
    tasks.append(Task('_get_bounds: slice step is rejected with ValueError', c04.q_step_rejected, (), timeout=120, meta={'kind': 'step'}))
    fam = [(0, 1, [], True, False), (0, 1, [], False, True), (0, 1, [], True, True), (1, 1, [0], True, False), (1, 2, [0], True, True), (1, 1, [0], False, False),
           (2, 1, [0, 1], True, False), (2, 2, [1, 0], True, True), (2, 3, [0, 1], True, False), (2, 1, [0, 1], False, False), (2, 1, [0, 1], False, True),
           (3, 1, [0, 1, 2], False, False), (3, 2, [2, 0, 1], True, False)]
    if thorough:
        fam += [(3, 1, [0, 1, 2], True, False), (3, 3, [2, 1, 0], True, True), (3, 4, [0, 1, 2], True, False), (3, 2, [0, 1, 2], True, True),
                (4, 2, [3, 2, 1, 0], True, False), (4, 1, [0, 1, 2, 3], False, True)]
    for n, ps, pm, wi, par in fam:
        tasks.append(Task(f'cx[...] n={n} page={ps} perm={pm} index={wi} parent={par}', c04.q_getitem, (n, ps), {'perm': pm, 'with_index': wi, 'parent': par, 'budget_s': cap - 60},
                          timeout=cap, meta={'kind': 'gi', 'n': n, 'ps': ps, 'wi': wi, 'par': par, 'perm': pm}))
    # omitted end with an index: _get_bounds reads the extent from the index, so the index built by the real constructor must report the extent of
    # the rows with defined boxes (rows of missing/empty elements are all-NaN)
    from . import c03
    ext = [(1, 1, [0]), (2, 1, [0, 1]), (2, 2, [1, 0]), (3, 2, [1, 2, 0])] + ([(3, 1, [2, 1, 0]), (3, 4, [0, 1, 2]), (4, 2, [3, 0, 2, 1])] if thorough else [])
    for n, ps, pm in ext:
        tasks.append(Task(f'index extent = extent of the defined rows: n={n} page={ps} perm={pm} (rows may be NaN)', c03.explore, (n, ps),
                          {'dims': 2, 'nan_rows': True, 'perm': pm, 'mode': 'covers', 'budget_s': cap - 30}, timeout=cap,
                          meta={'kind': 'ext', 'n': n, 'ps': ps, 'perm': pm}))
    tasks.sort(key=lambda t: -(t.meta.get('n', 0) * 10 + (5 - t.meta.get('ps', 5))))
    res = pool(tasks)
    for t in tasks:
        r = res.get(t.name, {'status': 'error', 'detail': 'no result'})
        m = t.meta
        if r['status'] == 'violated' and m['kind'] == 'gb':
            outs = []
            for pr in r.get('problems') or []:
                bad, wit = c04.replay_get_bounds(m['pat'], m['wi'], m['scalar'], pr.get('model') or {})
                outs.append(check.violation(f"C04:get_bounds:{'index' if m['wi'] else 'no-index'}", f"cx with key {wit['key']}: rows {wit.get('got')} expected {wit.get('expected')} "
                                            f"(stated box {wit['stated_box']})", wit) if bad else 'spurious')
            st = 'violated' if any(o in ('new', 'dup') for o in outs) else ('known-finding' if outs and all(o == 'known' for o in outs) else 'inconclusive')
            check.record(t.name, dict(r, status=st, detail='box differs from the stated one but the selected rows are the same on the replayed inputs' if st == 'inconclusive' else None), 'paths', m)
        elif r['status'] == 'violated' and m['kind'] == 'gi':
            bad, wit = c04.replay_getitem(m['n'], m['ps'], m['wi'], m['par'], r['model'], rect=r.get('rect', False), perm=m.get('perm'))
            if bad:
                v = check.violation(f"C04:getitem:{'index' if m['wi'] else 'no-index'}", f"cx selected rows {wit.get('got')} but exactly rows {wit.get('expected')} intersect the box", wit)
                check.record(t.name, dict(r, status='known-finding' if v == 'known' else 'violated'), 'paths', m)
            else:
                check.record(t.name, dict(r, status='inconclusive', detail=f'symbolic counterexample did not reproduce through the public API: {str(wit)[:300]}'), 'paths', m)
        elif r['status'] == 'violated' and m['kind'] == 'ext':
            ok, wit = c03.replay(r, m['n'], m['ps'], 2, True, m['perm'], 'covers')
            if ok:
                v = check.violation('C04:index-extent', f"index over boxes {wit.get('bounds')}: total_bounds {wit['total_bounds_got']} but the defined rows span "
                                                        f"{wit['total_bounds_expected']}; query {wit.get('query')} got {wit['got']} expected {wit['expected']}", wit)
                check.record(t.name, dict(r, status='known-finding' if v == 'known' else 'violated'), 'paths', m)
            else:
                check.record(t.name, dict(r, status='inconclusive', detail='symbolic counterexample did not reproduce on the real code'), 'paths', m)
        elif r['status'] == 'violated':
            v = check.violation('C04:step-not-rejected', f"slice step accepted: {r.get('problems')}", {'problems': r.get('problems')})
            check.record(t.name, dict(r, status='violated'), 'paths', m)
        else:
            check.record(t.name, r, 'paths', m)

    from . import glue
    glue.run(check, pool, Task, ('multipoint',))
    # index state 'built on the parent, then sliced/derived': a derived array with different rows must start without an index (then the obligations above apply)
    from . import wrappers as W
    W.run_arrays(check, pool, Task, 'C04', ('sindex', 'isna'), kinds=['line', 'polygon'] if check.tier != 'thorough' else ['multipoint', 'line', 'multiline', 'polygon', 'multipolygon'],
                 derivs=['slice[1:]', 'reverse[::-1]', 'step[::2]', 'take[2,0,-1]', 'mask', 'copy', 'concat[2:]+[:2]', 'slice[-2:]', 'head[:2]'], label='index-state')


def replay(path):
    import json
    print(json.dumps(json.load(open(path))['witness'], indent=1)[:3000])
    return 0
