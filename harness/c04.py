"""C04 - .cx selects exactly the intersecting rows, with or without a spatial index.

G: _BaseCoordinateIndexer._get_bounds for every pattern of present / omitted slice ends, scalars and steps:
   the box is the stated one (omitted end = total extent on that side, reversed ends swapped, step rejected).
P: _BaseCoordinateIndexer.__getitem__ + _CoordinateIndexer._perform_get_item with the real R-tree code underneath
   (fork mode) and without an index: the selected positions are exactly {i : I_i} in ascending order, where I_i is
   the (uninterpreted) exact predicate of row i constrained by bounding-box soundness.
"""
import itertools
import time

import numpy as np
import z3

from pysym import values
from pysym.core import Explorer, Infeasible, Interp, SelfObj, Stub
from pysym.values import Num, PathRaise, SBool, Unsupported, tz, wrapb

from .c03 import make_interp
from .framework import model_ints

GB = 'spatialpandas.geometry.base'
RT = 'spatialpandas.spatialindex.rtree'


class FakeSindex:
    """stands for a HilbertRtree in the _get_bounds obligations: only total_bounds is read"""
    _pysym_model = True

    def __init__(self, tb):
        self.total_bounds = tb


class FakeGeom:
    """the geometry array seen by the indexer: total_bounds, intersects_bounds(box, inds), __getitem__, _sindex"""
    _pysym_model = True

    def __init__(self, n, total_bounds, I, log, sindex=None):
        self.n, self.total_bounds, self.I, self.log, self._sindex = n, total_bounds, I, log, sindex

    def __len__(self):
        return self.n

    def intersects_bounds(self, box, inds=None):
        self.log.append(('box', tuple(box)))
        sel = list(range(self.n)) if inds is None else [int(i) for i in inds]
        out = np.empty(len(sel), dtype=object)
        for k, i in enumerate(sel):
            out[k] = self.I[i]
        return out

    def __getitem__(self, sel):
        sel = np.asarray(sel)
        if sel.dtype == bool:
            sel = np.nonzero(sel)[0]
        self.log.append(('selected', [int(x) for x in sel]))
        return ('selection', [int(x) for x in sel])


class FakeLabels:
    """index labels of the parent (with a duplicate, as after a concat): positional reads only"""
    _pysym_model = True

    def __init__(self, labels):
        self.labels = labels

    def __getitem__(self, sel):
        sel = np.asarray(sel)
        if sel.dtype == bool:
            sel = np.nonzero(sel)[0]
        return [self.labels[int(i)] for i in sel]

    def __len__(self):
        return len(self.labels)


class FakeLoc:
    """label based selection with pandas semantics: every row carrying a requested label, per requested label"""
    _pysym_model = True

    def __init__(self, parent):
        self.parent = parent

    def __getitem__(self, labels):
        labs = self.parent.index.labels
        pos = [i for lab in list(labels) for i in range(len(labs)) if labs[i] == lab]
        self.parent.geom.log.append(('selected-parent', pos))
        return ('parent-selection-by-label', pos)


class FakeParent:
    _pysym_model = True

    def __init__(self, geom):
        self.geom = geom
        self.iloc = self
        n = geom.n
        self.index = FakeLabels(['dup' if i in (0, n - 1) else f'r{i}' for i in range(n)])     # first and last row share a label
        self.loc = FakeLoc(self)

    def __len__(self):
        return self.geom.n

    def __getitem__(self, sel):
        sel = np.asarray(sel)
        if sel.dtype == bool:
            sel = np.nonzero(sel)[0]
        self.geom.log.append(('selected-parent', [int(x) for x in sel]))
        return ('parent-selection', [int(x) for x in sel])


def nan_or(v, nan):
    return Num(v, nan)


def q_get_bounds(pattern, with_index, scalar=(False, False), tb_nan=False, timeout=120):
    """pattern: 4 booleans (x start, x stop, y start, y stop present).  fork mode."""
    values.set_mul_mode('exact')
    t0 = time.time()
    it = Interp()
    it.native_symbolic_ok['slice'] = True
    from spatialpandas.geometry.base import _CoordinateIndexer
    k = [z3.Real(n) for n in ('kx0', 'kx1', 'ky0', 'ky1')]
    T = [z3.Real(n) for n in ('tx0', 'ty0', 'tx1', 'ty1')]
    tnan = z3.Bool('t_nan') if tb_nan else False
    ex = Explorer([T[0] <= T[2], T[1] <= T[3]])
    it.explorer = ex
    tbv = tuple(Num(t, tnan) for t in T)
    geom = FakeGeom(0, tbv, [], [], sindex=FakeSindex(tbv) if with_index else None)
    ind = _CoordinateIndexer(geom)
    f = it.func(GB, '_BaseCoordinateIndexer._get_bounds')
    problems = []
    nq = 0
    outcomes = set()

    def part(present, a, b, is_scalar):
        if is_scalar:
            return Num(a)
        return slice(Num(a) if present[0] else None, Num(b) if present[1] else None)
    while ex.work:
        script = ex.work.pop()
        ex.start(script)
        key = (part(pattern[0:2], k[0], k[1], scalar[0]), part(pattern[2:4], k[2], k[3], scalar[1]))
        try:
            r = it.call(f, [ind, key])
        except Infeasible:
            continue
        except PathRaise as e:
            problems.append({'problem': 'raises', 'detail': e.text})
            continue
        ex.paths += 1
        x0, x1, y0, y1 = [Num.lift(v) for v in r]
        # the stated box: omitted end = total extent on that side, scalar s = [s, s], reversed ends swapped
        def ends(present, a, b, lo, hi, is_scalar):
            if is_scalar:
                return Num(a), Num(a)
            return (Num(a) if present[0] else Num(lo, tnan)), (Num(b) if present[1] else Num(hi, tnan))
        ax, bx = ends(pattern[0:2], k[0], k[1], T[0], T[2], scalar[0])
        ay, by = ends(pattern[2:4], k[2], k[3], T[1], T[3], scalar[1])
        want = (values.ite(bx < ax, bx, ax), values.ite(bx < ax, ax, bx), values.ite(by < ay, by, ay), values.ite(by < ay, ay, by))
        from .wrappers import num_differs
        ex.solver.push()
        ex.solver.add(*ex.pc)
        ex.solver.add(z3.Or(*[num_differs(g, w) for g, w in zip((x0, x1, y0, y1), want)]))
        if not tb_nan:      # boxes of positive width and height (the property's domain); a scalar key is a degenerate interval by definition
            if not scalar[0]:
                ex.solver.add(tz(want[0] < want[1]))
            if not scalar[1]:
                ex.solver.add(tz(want[2] < want[3]))
        rr = str(ex.solver.check())
        nq += 1
        if rr == 'sat':
            m = ex.solver.model()
            problems.append({'problem': 'wrong-box', 'model': model_ints(m, k + T + ([tnan] if tb_nan else []))})
        ex.solver.pop()
        outcomes.add('returns')
    return {'status': 'violated' if problems else 'holds', 'paths': ex.paths, 'queries': ex.checks + nq, 'solver_s': round(ex.solver_s, 2),
            'encoded': it.encoded, 'formula_size': ex.paths, 'problems': problems, 'symex_s': round(time.time() - t0, 2)}


def q_step_rejected():
    """a slice step must raise ValueError"""
    it = Interp()
    from spatialpandas.geometry.base import _CoordinateIndexer
    geom = FakeGeom(0, (0.0, 0.0, 1.0, 1.0), [], [])
    ind = _CoordinateIndexer(geom)
    f = it.func(GB, '_BaseCoordinateIndexer._get_bounds')
    bad = []
    for key in ((slice(0, 1, 2), slice(0, 1)), (slice(0, 1), slice(None, None, 1))):
        try:
            it.call(f, [ind, key])
            bad.append(str(key))
        except PathRaise as e:
            if e.exc is not ValueError:
                bad.append(f'{key}: raises {e.exc}')
    return {'status': 'violated' if bad else 'holds', 'encoded': it.encoded, 'formula_size': 1, 'queries': 2, 'problems': bad, 'solver_s': 0.0}


def q_getitem(n, page_size, perm=None, with_index=True, parent=False, nan_rows=True, max_paths=60000, budget_s=600):
    """__getitem__ with a fully specified symbolic key through the real R-tree (or the mask path without index)"""
    values.set_mul_mode('exact')
    t0 = time.time()
    perm = list(perm) if perm is not None else list(range(n))
    it, mod = make_interp(perm)
    from spatialpandas.geometry.base import _CoordinateIndexer
    from spatialpandas.spatialindex.rtree import HilbertRtree
    lo = [[z3.Real(f'lo{i}_{d}') for d in range(2)] for i in range(n)]
    hi = [[z3.Real(f'hi{i}_{d}') for d in range(2)] for i in range(n)]
    nan = [z3.Bool(f'nan{i}') if nan_rows else False for i in range(n)]
    I = [z3.Bool(f'I{i}') for i in range(n)]
    k = [z3.Real(nm) for nm in ('kx0', 'kx1', 'ky0', 'ky1')]
    allv = [v for r in lo for v in r] + [v for r in hi for v in r] + [b for b in nan if b is not False] + I + k
    qx0, qx1 = z3.If(k[1] < k[0], k[1], k[0]), z3.If(k[1] < k[0], k[0], k[1])
    qy0, qy1 = z3.If(k[3] < k[2], k[3], k[2]), z3.If(k[3] < k[2], k[2], k[3])
    assumptions = [lo[i][d] <= hi[i][d] for i in range(n) for d in range(2)]
    for i in range(n):
        nn = z3.Not(nan[i]) if nan_rows else z3.BoolVal(True)
        inside = z3.And(lo[i][0] >= qx0, hi[i][0] <= qx1, lo[i][1] >= qy0, hi[i][1] <= qy1)
        overlap = z3.And(hi[i][0] >= qx0, lo[i][0] <= qx1, hi[i][1] >= qy0, lo[i][1] <= qy1)
        # bounding-box soundness of the exact predicate (C01/C13): inert => no; inside => yes; yes => overlap
        assumptions += [z3.Implies(z3.Not(nn), z3.Not(I[i])), z3.Implies(z3.And(nn, inside), I[i]), z3.Implies(I[i], z3.And(nn, overlap))]
    ex = Explorer(assumptions, max_paths=max_paths)
    it.explorer = ex
    init = it.func(RT, 'HilbertRtree.__init__')
    gi = it.func(GB, '_BaseCoordinateIndexer.__getitem__')
    viol = None
    nq = 0
    outcomes = {'empty': 0, 'nonempty': 0}
    while ex.work:
        if ex.paths >= max_paths or time.time() - t0 > budget_s:
            return {'status': 'unknown', 'detail': f'budget exhausted after {ex.paths} paths', 'paths': ex.paths}
        script = ex.work.pop()
        ex.start(script)
        log = []
        bounds = np.empty((n, 4), dtype=object)
        for i in range(n):
            for d in range(2):
                bounds[i, d] = Num(lo[i][d], nan[i])
                bounds[i, d + 2] = Num(hi[i][d], nan[i])
        try:
            tree = None
            if with_index:
                tree = HilbertRtree.__new__(HilbertRtree)
                it.call(init, [tree, bounds], {'p': 10, 'page_size': page_size})
            geom = FakeGeom(n, (0.0, 0.0, 0.0, 0.0), [values.wrapb(b) for b in I], log, sindex=tree)
            ind = _CoordinateIndexer(geom, parent=FakeParent(geom) if parent else None)
            key = (slice(Num(k[0]), Num(k[1])), slice(Num(k[2]), Num(k[3])))
            res = it.call(gi, [ind, key])
        except Infeasible:
            continue
        except PathRaise as e:
            # building the index or the selection raises on a valid input: a violation if the path is feasible
            ex.paths += 1
            ex.solver.push()
            ex.solver.add(*ex.pc)
            ex.solver.add(*[z3.And(lo[i][0] < hi[i][0], lo[i][1] < hi[i][1]) for i in range(n)])      # realisable with proper rectangles
            ex.solver.add(*[I[i] == z3.And(z3.Not(nan[i]) if nan_rows else z3.BoolVal(True), hi[i][0] >= qx0, lo[i][0] <= qx1, hi[i][1] >= qy0, lo[i][1] <= qy1)
                            for i in range(n)])
            ex.solver.add(qx0 < qx1, qy0 < qy1)
            r = str(ex.solver.check())
            nq += 1
            if r == 'sat':
                viol = {'model': model_ints(ex.solver.model(), allv), 'log': [], 'rect': True, 'raised': f'{getattr(e.exc, "__name__", e.exc)}: {e.text}'}
                ex.solver.pop()
                break
            ex.solver.pop()
            continue
        ex.paths += 1
        boxes = [b for tag, b in log if tag == 'box']
        sels = [s_ for tag, s_ in log if tag.startswith('selected')]
        if not sels and (res is geom or isinstance(res, FakeParent)):
            sels = [list(range(n))]         # the object itself is returned: every row is selected
        if parent and n == 0 and not sels:
            sels = [[]]          # an empty parent is returned as it is
        conds = [z3.BoolVal(len(boxes) <= 1 and len(sels) == 1)]
        if len(boxes) == 1:
            bx = [Num.lift(v).v for v in boxes[0]]
            conds += [bx[0] == qx0, bx[1] == qy0, bx[2] == qx1, bx[3] == qy1]
        if len(sels) == 1:
            sel = sels[0]
            conds.append(z3.BoolVal(sel == sorted(sel) and len(set(sel)) == len(sel) and all(0 <= x < n for x in sel)))
            for i in range(n):
                conds.append(z3.BoolVal(i in sel) == I[i])
            outcomes['nonempty' if sel else 'empty'] += 1
            if (parent and n > 0) != any(tag == 'selected-parent' for tag, _ in log) and n > 0:
                conds.append(z3.BoolVal(False))
        ex.solver.push()
        ex.solver.add(*ex.pc)
        ex.solver.add(z3.Not(z3.And(*conds)))
        ts_ = time.time()
        r = str(ex.solver.check())
        ex.solver_s += time.time() - ts_
        nq += 1
        if r == 'sat':
            m = ex.solver.model()
            viol = {'model': model_ints(m, allv), 'log': [(t, str(v)[:200]) for t, v in log], 'rect': False}
            # prefer a counterexample realisable with rectangles (exact predicate == bbox overlap) for the replay
            ex.solver.add(*[I[i] == z3.And(z3.Not(nan[i]) if nan_rows else z3.BoolVal(True), hi[i][0] >= qx0, lo[i][0] <= qx1, hi[i][1] >= qy0, lo[i][1] <= qy1)
                            for i in range(n)])
            ex.solver.add(*[z3.And(lo[i][0] < hi[i][0], lo[i][1] < hi[i][1]) for i in range(n)])      # proper rectangles
            ex.solver.add(qx0 < qx1, qy0 < qy1)
            if str(ex.solver.check()) == 'sat':
                viol = {'model': model_ints(ex.solver.model(), allv), 'log': [(t, str(v)[:200]) for t, v in log], 'rect': True}
                ex.solver.pop()
                break
            ex.solver.pop()
            # otherwise one realisable with two-point multipoints on a diagonal of the bounding box (exact predicate: an end point lies in the box)
            ex.solver.push()
            ex.solver.add(*ex.pc)
            ex.solver.add(z3.Not(z3.And(*conds)))
            dg = [z3.Bool(f'diag{i}') for i in range(n)]

            def inbox(x, y):
                return z3.And(x >= qx0, x <= qx1, y >= qy0, y <= qy1)
            ex.solver.add(*[I[i] == z3.And(z3.Not(nan[i]) if nan_rows else z3.BoolVal(True),
                                           z3.If(dg[i], z3.Or(inbox(lo[i][0], lo[i][1]), inbox(hi[i][0], hi[i][1])),
                                                 z3.Or(inbox(lo[i][0], hi[i][1]), inbox(hi[i][0], lo[i][1])))) for i in range(n)])
            if str(ex.solver.check()) == 'sat':
                viol = {'model': model_ints(ex.solver.model(), allv + dg), 'log': [(t, str(v)[:200]) for t, v in log], 'rect': 'diag'}
            ex.solver.pop()
            break
        ex.solver.pop()
        if r != 'unsat':
            return {'status': 'unknown', 'detail': 'solver unknown', 'paths': ex.paths}
    out = {'paths': ex.paths, 'queries': ex.checks + nq, 'solver_s': round(ex.solver_s, 2), 'encoded': it.encoded, 'formula_size': ex.paths,
           'outcomes': outcomes, 'symex_s': round(time.time() - t0 - ex.solver_s, 2)}
    if viol:
        out.update(status='violated', **viol)
    elif n > 0 and (outcomes['empty'] == 0 or outcomes['nonempty'] == 0):
        out.update(status='error', detail=f'vacuity: {outcomes}')
    else:
        out['status'] = 'holds'
    return out


# ------------------------------------------------------------------------------------------------ replay on the public API
def replay_get_bounds(pattern, with_index, scalar, model):
    """public API: a LineArray whose total extent is the model's T; cx with the model's key"""
    import spatialpandas.geometry as sg
    f = lambda v: float(v)   # noqa: E731
    T = [f(model.get(n, d)) for n, d in zip(('tx0', 'ty0', 'tx1', 'ty1'), (0, 0, 4, 4))]
    kx0, kx1, ky0, ky1 = [f(model.get(n, d)) for n, d in zip(('kx0', 'kx1', 'ky0', 'ky1'), (1, 2, 1, 2))]
    # rows: the four corners region of the extent as tiny segments, plus the diagonal
    rows = [[T[0], T[1], T[0], T[1]], [T[2], T[3], T[2], T[3]], [T[0], T[3], T[0], T[3]], [T[2], T[1], T[2], T[1]],
            [(T[0] + T[2]) / 2, (T[1] + T[3]) / 2, (T[0] + T[2]) / 2, (T[1] + T[3]) / 2]]
    arr = sg.MultiPointArray([r[:2] for r in rows], dtype='float64')
    rows = [r[:2] for r in rows]
    if with_index:
        arr.build_sindex(page_size=2)

    def part(present, a, b, is_scalar):
        if is_scalar:
            return a
        return slice(a if present[0] else None, b if present[1] else None)
    key = (part(pattern[0:2], kx0, kx1, scalar[0]), part(pattern[2:4], ky0, ky1, scalar[1]))
    ax = (kx0, kx0) if scalar[0] else (kx0 if pattern[0] else T[0], kx1 if pattern[1] else T[2])
    ay = (ky0, ky0) if scalar[1] else (ky0 if pattern[2] else T[1], ky1 if pattern[3] else T[3])
    box = (min(ax), min(ay), max(ax), max(ay))
    wit = {'rows': rows, 'key': str(key), 'with_index': with_index, 'stated_box': box}
    try:
        got = arr.cx[key]
    except Exception as e:  # noqa: BLE001
        wit['got'] = f'raises {type(e).__name__}: {e}'
        return True, wit
    got_rows = [tuple(got[i].data.as_py()) for i in range(len(got))]
    want_rows = [tuple(r) for r in rows if box[0] <= r[0] <= box[2] and box[1] <= r[1] <= box[3]]
    wit.update(got=got_rows, expected=want_rows)
    return got_rows != want_rows, wit


def replay_getitem(n, page_size, with_index, parent, model, nan_rows=True, rect=True, perm=None):
    """public API replay with rectangles (PolygonArray rows: the exact predicate is then the bbox overlap itself).
    Only models with I_i == overlap_i (flag rect) can be replayed this way.  The symbolic run leaves the curve order of the
    index arbitrary; the replay looks for coordinates with the model's comparisons whose real Hilbert order shows the
    problem (several monotone re-scalings per axis), and as a last resort attaches a real index built by the
    repository's own build function (py_func) with the model's key order forced."""
    if not rect:
        return False, {'note': 'counterexample needs an exact predicate different from bbox overlap; no public-API replay built'}
    names = [f'lo{i}_{d}' for i in range(n) for d in range(2)] + [f'hi{i}_{d}' for i in range(n) for d in range(2)] + ['kx0', 'kx1', 'ky0', 'ky1']
    vals = sorted({model[k_] for k_ in names})
    top = float(max(len(vals) - 1, 1))
    scalings = [lambda r: r, lambda r: r * r, lambda r: top * top - (top - r) ** 2, lambda r: 2.0 ** r, lambda r: -(2.0 ** (top - r))]
    attempts = [(fx, fy, None) for fx in scalings for fy in scalings] if with_index else [(scalings[0], scalings[0], None)]
    if with_index and perm is not None and len(perm) == n and n > 1:
        attempts.append((scalings[0], scalings[0], list(perm)))
    last = None
    for fx, fy, forced in attempts:
        bad, wit = _replay_getitem_once(n, page_size, with_index, parent, model, nan_rows, vals, fx, fy, forced, diag=(rect == 'diag'))
        last = wit
        if bad:
            return True, wit
    return False, last


def _same_rows(a, b):
    fl = lambda x: [c for y in x for c in fl(y)] if isinstance(x, list) else [float(x)]    # noqa: E731
    return fl(a) == fl(b)


def _replay_getitem_once(n, page_size, with_index, parent, model, nan_rows, vals, fx, fy, forced, diag=False):
    import pandas as pd
    import spatialpandas as sp
    import spatialpandas.geometry as sg
    rk = {v: float(i) for i, v in enumerate(vals)}
    gx = lambda k_: float(fx(rk[model[k_]]))    # noqa: E731
    gy = lambda k_: float(fy(rk[model[k_]]))    # noqa: E731
    kx0, kx1, ky0, ky1 = gx('kx0'), gx('kx1'), gy('ky0'), gy('ky1')
    box = (min(kx0, kx1), min(ky0, ky1), max(kx0, kx1), max(ky0, ky1))
    rows, exact = [], []
    for i in range(n):
        if nan_rows and model.get(f'nan{i}'):
            rows.append(None)
            continue
        x0, y0, x1, y1 = gx(f'lo{i}_0'), gy(f'lo{i}_1'), gx(f'hi{i}_0'), gy(f'hi{i}_1')
        if diag:
            pts = [x0, y0, x1, y1] if model.get(f'diag{i}') else [x0, y1, x1, y0]
            rows.append(pts)
            if any(box[0] <= px <= box[2] and box[1] <= py <= box[3] for px, py in (pts[:2], pts[2:])):
                exact.append(i)
            continue
        rows.append([[x0, y0, x1, y0, x1, y1, x0, y1, x0, y0]])
        if x1 >= box[0] and x0 <= box[2] and y1 >= box[1] and y0 <= box[3]:
            exact.append(i)
    arr = (sg.MultiPointArray if diag else sg.PolygonArray)(rows, dtype='float64')
    wit = {'rows': rows, 'key': (kx0, kx1, ky0, ky1), 'with_index': with_index, 'page_size': page_size, 'parent': parent}
    if with_index:
        try:
            arr.build_sindex(page_size=page_size)
        except Exception as e:  # noqa: BLE001
            wit.update(got=f'build_sindex raises {type(e).__name__}: {e}', expected=exact)
            return True, wit

    def force(a):
        from . import c03
        a._sindex = c03.real_tree(np.asarray(a.bounds, dtype='float64'), page_size, forced)
    try:
        if forced is not None:
            force(arr)
            wit['index'] = f'real index built by the repository build function in python mode with the key order {forced} forced'
        df = sp.GeoDataFrame({'geometry': arr, 'id': list(range(n))}, index=pd.Index(['dup' if i in (0, n - 1) else f'r{i}' for i in range(n)]))
        if with_index:
            df.build_sindex(page_size=page_size)      # the frame may hold a copy of the array: build the index on the frame's own column
            assert df.geometry.array._sindex is not None
            if forced is not None:
                force(df.geometry.array)
        if parent:
            got = [int(x) for x in df.cx[kx0:kx1, ky0:ky1]['id']]
        else:
            sel = arr.cx[kx0:kx1, ky0:ky1]
            # identify rows by content and order
            got, pos = [], 0
            items = [None if sel[j] is None else sel[j].data.as_py() for j in range(len(sel))]
            for it_ in items:
                for i in range(pos, n):
                    if rows[i] is not None and it_ is not None and _same_rows(rows[i], it_):
                        got.append(i)
                        pos = i + 1
                        break
                else:
                    got.append(-1)
    except Exception as e:  # noqa: BLE001
        wit['got'] = f'raises {type(e).__name__}: {e}'
        return True, wit
    wit.update(got=got, expected=exact)
    return got != exact, wit
