"""C02 - point versus shape `intersects` is exact (kernel level).

point_intersects_polygon: winding number of the real code == winding number of the upward-perturbed point
([lo,hi) rule, the opposite tie rule of the code) for closed rings and points off the boundary.
_perform_intersects_line / _perform_intersects_multipoint (jitted array kernels of point.py) == closed-segment /
vertex-equality oracles.
"""
import time

import numpy as np
import z3

from pysym import values
from pysym.core import Interp
from pysym.values import Num, tz

from . import geom as G
from .c01 import ALG, B25, EDGE_RULES, build_polys, code_wn, finish_query, ivars, pick_rule, rng

PT = 'spatialpandas.geometry.point'


def q_pip(shape, proved, mode='uf', timeout=600, seed=0, bnd=B25):
    """point_intersects_polygon over all rings of all parts (as the scalar/array wrappers call it)"""
    values.set_mul_mode(mode)
    t0 = time.time()
    it = Interp()
    polys = build_polys(shape)
    rings = [r for rs in polys for r in rs]
    flat_vs = [v for r in rings for v in r]
    offs = [0]
    for r in rings:
        offs.append(offs[-1] + 2 * len(r))
    q = tuple(ivars(['qx', 'qy']))
    impl, wn = code_wn(it, q, flat_vs, offs)
    part_wn = [G.wn_up(rs, q) for rs in polys]
    spec = z3.Or(*[w != 0 for w in part_wn])
    allv = list({str(t): t for v in flat_vs for t in v}.values()) + list(q)
    s = z3.Solver()
    s.add(*rng(allv, bnd))
    for r in rings:
        for i in range(len(r) - 1):
            s.add(z3.Not(G.on_seg(q, r[i], r[i + 1])))
    if len(polys) > 1:     # disjoint interiors: at most one part winds around q
        s.add(z3.AtMost(*[w != 0 for w in part_wn], 1))
    if mode == 'uf':
        rule = pick_rule(proved)
        for r in rings:
            for i in range(len(r) - 1):
                u, w = r[i], r[i + 1]
                if rule is not None:
                    _, wn_e = code_wn(it, q, [u, w], [0, 4])
                    s.add(wn_e == EDGE_RULES[rule](u, w, q))
                if 'E2' in proved:
                    s.add(G.E2(u, w, q))
    extra = {}
    if wn is not None and len(polys) == 1:
        # stronger: the observed local equals the oracle's winding number, not only its non-zero-ness
        return _finish_wn(s, impl, spec, wn, part_wn[0], allv, it, timeout, seed, t0)
    return finish_query(s, impl, spec, allv, it, timeout, seed, t0, extra)


def _finish_wn(s, impl, spec, wn, wn_spec, allv, it, timeout, seed, t0):
    from .framework import formula_size, model_ints, z3_check
    vac = []
    nq = 0
    for nm, ex in (('impl-true', impl), ('impl-false', z3.Not(impl))):
        s.push()
        s.add(ex)
        st, _, _ = z3_check(s, min(timeout, 60), seed)
        nq += 1
        s.pop()
        if st != 'sat':
            vac.append(f"{nm}:{st}")
    s.add(z3.Or(impl != spec, wn != wn_spec))
    st, m, dt = z3_check(s, timeout, seed)
    out = {'status': st, 'solver_s': round(dt, 3), 'formula_size': formula_size(s), 'encoded': it.encoded, 'queries': nq + 1,
           'symex_s': round(time.time() - t0 - dt, 2)}
    if vac:
        out.update(status='error', detail='vacuity twin failed: ' + ','.join(vac))
    if m is not None:
        out['model'] = model_ints(m, allv)
    return out


def q_point_line(part_sizes, proved, mode='uf', timeout=300, seed=0, bnd=B25, npoints=1):
    """_perform_intersects_line(flat_points, flat_lines, offsets, inds) for symbolic points and line vertices"""
    values.set_mul_mode(mode)
    t0 = time.time()
    it = Interp()
    parts = [[(z3.Int(f'p{pi}x{i}'), z3.Int(f'p{pi}y{i}')) for i in range(k)] for pi, k in enumerate(part_sizes)]
    flat_vs = [v for p in parts for v in p]
    offs = [0]
    for p in parts:
        offs.append(offs[-1] + 2 * len(p))
    qs = [(z3.Int(f'q{j}x'), z3.Int(f'q{j}y')) for j in range(npoints)]
    f = it.func(PT, '_perform_intersects_line')
    inds = np.arange(npoints)[::-1].copy()          # reversed positions: result[i] belongs to inds[i]
    res = it.call(f, [G.num_pts(qs), G.num_pts(flat_vs), np.array(offs, dtype=np.uint32), inds])
    impls = [tz(res[i]) for i in range(npoints)]

    def spec_for(q):
        terms = []
        for p in parts:
            if len(p) == 1:
                terms.append(z3.And(q[0] == p[0][0], q[1] == p[0][1]))
            for i in range(len(p) - 1):
                terms.append(G.on_seg(q, p[i], p[i + 1]))
        return z3.Or(*terms) if terms else z3.BoolVal(False)
    specs = [spec_for(qs[inds[i]]) for i in range(npoints)]
    allv = [t for v in flat_vs for t in v] + [t for q in qs for t in q]
    s = z3.Solver()
    s.add(*rng(allv, bnd))
    impl = z3.And(*[a == b for a, b in zip(impls, specs)])
    # use finish_query with impl := impls[0] for the vacuity twins, then the full disagreement
    from .framework import formula_size, model_ints, z3_check
    vac = []
    for nm, ex in (('impl-true', impls[0]), ('impl-false', z3.Not(impls[0]))):
        s.push()
        s.add(ex)
        st, _, _ = z3_check(s, 60, seed)
        s.pop()
        if st != 'sat' and flat_vs:
            vac.append(f"{nm}:{st}")
    s.add(z3.Not(impl))
    st, m, dt = z3_check(s, timeout, seed)
    out = {'status': st, 'solver_s': round(dt, 3), 'formula_size': formula_size(s), 'encoded': it.encoded, 'queries': 3,
           'symex_s': round(time.time() - t0 - dt, 2)}
    if vac:
        out.update(status='error', detail='vacuity twin failed: ' + ','.join(vac))
    if m is not None:
        out['model'] = model_ints(m, allv)
    return out


def q_point_multipoint(k, npoints=2, timeout=120, seed=0, bnd=B25):
    values.set_mul_mode('exact')
    t0 = time.time()
    it = Interp()
    vs = [(z3.Int(f'x{i}'), z3.Int(f'y{i}')) for i in range(k)]
    qs = [(z3.Int(f'q{j}x'), z3.Int(f'q{j}y')) for j in range(npoints)]
    f = it.func(PT, '_perform_intersects_multipoint')
    inds = np.arange(npoints)[::-1].copy()
    res = it.call(f, [G.num_pts(qs), G.num_pts(vs), inds])
    bad = []
    for i in range(npoints):
        q = qs[inds[i]]
        spec = z3.Or(*[z3.And(q[0] == v[0], q[1] == v[1]) for v in vs]) if vs else z3.BoolVal(False)
        bad.append(tz(res[i]) != spec)
    allv = [t for v in vs for t in v] + [t for q in qs for t in q]
    s = z3.Solver()
    s.add(*rng(allv, bnd))
    s.add(z3.Or(*bad))
    from .framework import formula_size, model_ints, z3_check
    st, m, dt = z3_check(s, timeout, seed)
    out = {'status': st, 'solver_s': round(dt, 3), 'formula_size': formula_size(s), 'encoded': it.encoded,
           'symex_s': round(time.time() - t0 - dt, 2)}
    if m is not None:
        out['model'] = model_ints(m, allv)
    return out


# ------------------------------------------------------------------------------------------------ replay
def model_pts(model, prefix, k):
    return [(model[f'{prefix}x{i}'], model[f'{prefix}y{i}']) for i in range(k)]


def forms(points, shape_arr):
    """scalar / array / array+inds answers of the real code for every point against shape_arr[0]"""
    import spatialpandas.geometry as sg
    pa_ = sg.PointArray([[float(x), float(y)] for x, y in points])
    shape = shape_arr[0]
    n = len(points)
    arr = [bool(x) for x in pa_.intersects(shape)]
    inds = np.arange(n)[::-1].copy()
    ind = [bool(x) for x in pa_.intersects(shape, inds=inds)][::-1]
    sca = [bool(pa_[i].intersects(shape)) for i in range(n)]
    return {'array': arr, 'inds': ind, 'scalar': sca}


def replay_pip(shape, model):
    import spatialpandas.geometry as sg
    polys = []
    for pi, ring_sizes in enumerate(shape):
        rings = []
        for ri, m in enumerate(ring_sizes):
            vs = model_pts(model, f'g{pi}r{ri}', m)
            rings.append(vs + [vs[0]] if m else [])
        polys.append(rings)
    q = (model['qx'], model['qy'])
    flat = [[[c for v in r for c in v] for r in rings] for rings in polys]
    arr = sg.PolygonArray([flat[0]]) if len(polys) == 1 else sg.MultiPolygonArray([flat])
    got = forms([q], arr)
    res = [G.point_in_polygon_x(rings, q) for rings in polys]
    want = any(a for a, _ in res)
    on_b = any(G.on_boundary_x(rings, q) for rings in polys)
    in_domain = (not on_b) and all(u for _, u in res) and sum(1 for a, _ in res if a) <= 1
    return got, [want], in_domain, {'polygons': polys, 'point': q, 'kind': 'polygon' if len(polys) == 1 else 'multipolygon'}


def replay_point_line(part_sizes, model, npoints):
    import spatialpandas.geometry as sg
    parts = [model_pts(model, f'p{pi}', k) for pi, k in enumerate(part_sizes)]
    qs = [(model[f'q{j}x'], model[f'q{j}y']) for j in range(npoints)]
    flat = [[c for v in p for c in v] for p in parts]
    arr = sg.LineArray([flat[0]]) if len(parts) == 1 else sg.MultiLineArray([flat])

    def on_line(q):
        for p in parts:
            if len(p) == 1 and (p[0][0], p[0][1]) == q:
                return True
            if any(G.on_seg_x(q, p[i], p[i + 1]) for i in range(len(p) - 1)):
                return True
        return False
    got = forms(qs, arr)
    want = [on_line(q) for q in qs]
    return got, want, True, {'parts': parts, 'points': qs, 'kind': 'line' if len(parts) == 1 else 'multiline'}


def replay_point_multipoint(k, model, npoints):
    import spatialpandas.geometry as sg
    vs = model_pts(model, '', k)
    qs = [(model[f'q{j}x'], model[f'q{j}y']) for j in range(npoints)]
    arr = sg.MultiPointArray([[c for v in vs for c in v]])
    got = forms(qs, arr)
    want = [q in vs for q in qs]
    return got, want, True, {'multipoint': vs, 'points': qs, 'kind': 'multipoint'}


# ------------------------------------------------------------------------------------------------ float32 points and shapes
B24 = 1 << 24


def q_f32(kind, struct, timeout=300, seed=0, bnd=1 << 14, solve=True):
    """point kernels with float32 points AND a float32 shape buffer (values.F32 mode: float32 (op) float32 is float32, so
    differences and the cross products are rounded to 24 bits).  kind 'line': _perform_intersects_line on one line of
    struct vertices; kind 'polygon': point_intersects_polygon on one closed ring of struct distinct vertices, point not on
    the boundary.  Integer coordinates |c| <= bnd (2^14: products of differences then exceed 2^24); exact multiplication; rounded values
    named by fresh variables."""
    from .framework import formula_size, model_ints, z3_check
    values.set_mul_mode('exact')
    exp = 2 * (bnd.bit_length() + 1) + 1          # |differences| <= 2 bnd, |products| <= 4 bnd^2, |difference of products| <= 8 bnd^2
    values.F32.update(on=True, rounded=0, defs=[], sum_exp=exp, prod_exp=exp)
    t0 = time.time()

    def mark(vs):
        flat = np.empty(2 * len(vs), dtype=object)
        for i, v in enumerate(vs):
            flat[2 * i], flat[2 * i + 1] = Num(v[0], False, 0, True), Num(v[1], False, 0, True)
        return flat
    try:
        it = Interp()
        q = (z3.Int('q0x'), z3.Int('q0y'))
        cons = []
        if kind == 'line':
            vs = [(z3.Int(f'p0x{i}'), z3.Int(f'p0y{i}')) for i in range(struct)]
            res = it.call(it.func(PT, '_perform_intersects_line'), [mark([q]), mark(vs), np.array([0, 2 * struct], dtype=np.uint32), np.arange(1)])
            impl = tz(res[0])
            spec = z3.Or(*[G.on_seg(q, vs[i], vs[i + 1]) for i in range(struct - 1)])
        else:
            vs = [(z3.Int(f'g0r0x{i}'), z3.Int(f'g0r0y{i}')) for i in range(struct)]
            ring = vs + [vs[0]]
            r = it.call(it.func(ALG, 'point_intersects_polygon'), [Num(q[0], False, 0, True), Num(q[1], False, 0, True), mark(ring), np.array([0, 2 * len(ring)], dtype=np.uint32)])
            impl = tz(r)
            spec = G.wn_up([ring], q) != 0
            cons += [z3.Not(G.on_seg(q, ring[i], ring[i + 1])) for i in range(len(ring) - 1)]       # off the boundary
    finally:
        defs = values.F32['defs']
        values.F32.update(on=False, defs=None, sum_exp=25, prod_exp=50)
    rounded = values.F32['rounded']
    extra = {'f32_typed_operations': rounded, 'bound': bnd}
    if rounded == 0 and not solve:
        return {'status': 'unsat', 'reduced': True, 'solver_s': 0.0, 'queries': 0, 'formula_size': 1, 'encoded': it.encoded, 'symex_s': round(time.time() - t0, 2),
                'detail': 'no float32-typed arithmetic in the symbolic run: the encoding is the float64 one, decided by the float64 obligation of this structure', **extra}
    allv = [t for v in vs for t in v] + list(q)
    s = z3.Solver()
    s.add(*rng(allv, bnd))
    s.add(*cons)
    s.add(*defs)
    s.add(impl != spec)
    st, m, dt = z3_check(s, timeout, seed)
    out = {'status': st, 'solver_s': round(dt, 3), 'formula_size': formula_size(s), 'encoded': it.encoded, 'queries': 1, 'symex_s': round(time.time() - t0 - dt, 2), **extra}
    if m is not None:
        out['model'] = model_ints(m, allv)
    return out


def replay_f32(kind, struct, model):
    """real PointArray(float32).intersects(float32 shape), all forms, against the exact oracle"""
    import spatialpandas.geometry as sg
    q = (int(model.get('q0x', 0)), int(model.get('q0y', 0)))
    pa_ = sg.PointArray([[q[0], q[1]]], dtype='float32')
    if kind == 'line':
        vs = [(int(model.get(f'p0x{i}', 0)), int(model.get(f'p0y{i}', 0))) for i in range(struct)]
        shape = sg.LineArray([[c for v in vs for c in v]], dtype='float32')[0]
        want = any(G.on_seg_x(q, vs[i], vs[i + 1]) for i in range(struct - 1))
        in_domain = True
    else:
        vs = [(int(model.get(f'g0r0x{i}', 0)), int(model.get(f'g0r0y{i}', 0))) for i in range(struct)]
        ring = vs + [vs[0]]
        shape = sg.PolygonArray([[[c for v in ring for c in v]]], dtype='float32')[0]
        want = G.winding_x([ring], q) != 0
        in_domain = not G.on_boundary_x([ring], q)
    got = {'array': bool(pa_.intersects(shape)[0]), 'inds': bool(pa_.intersects(shape, inds=np.array([0]))[0]), 'scalar': bool(pa_[0].intersects(shape))}
    wit = {'kind': kind, 'dtype': 'float32', 'point': q, 'shape': vs, 'got': got, 'expected': want}
    return in_domain and any(v != want for v in got.values()), wit
