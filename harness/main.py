"""./check <id> [--tier quick|thorough] [--replay path]"""
import argparse
import importlib
import os
import sys

sys.path.insert(0, os.path.dirname(os.path.dirname(os.path.abspath(__file__))))


def main():
    ap = argparse.ArgumentParser()
    ap.add_argument('pid')
    ap.add_argument('--tier', default=None)
    ap.add_argument('--replay', default=None)
    a = ap.parse_args()
    os.environ.setdefault('HOLOVIZ_SPATIALPANDAS_VERIF', '1')
    os.environ.setdefault('NUMBA_NUM_THREADS', '4')
    import spatialpandas  # noqa: F401  (imported before forking workers)
    from harness.framework import Check
    from pysym.pool import Task, run_tasks
    mod = importlib.import_module('harness.run_' + a.pid.lower())
    if a.replay:
        sys.exit(mod.replay(a.replay))
    check = Check(a.pid, a.tier)

    def pool(tasks):
        def prog(t, r):
            check.log(f"  {t.name}: {r.get('status')} solver={r.get('solver_s')} wall={r.get('wall_s')} {str(r.get('detail') or '')[:160]}")
        res = run_tasks(tasks, progress=prog)
        # an undecided query (solver timeout / unknown, usually CPU contention) is retried once with twice the budget and
        # few competitors before it is reported as inconclusive
        again = []
        for t in tasks:
            r = res.get(t.group)
            if r is not None and r.get('status') in ('unknown', 'timeout') and not getattr(t, '_retried', False) and not (t.meta or {}).get('noretry') \
                    and (r.get('wall_s') or 0) <= 400:
                kw = dict(t.kwargs)
                for k in ('timeout', 'budget_s'):
                    if isinstance(kw.get(k), (int, float)):
                        kw[k] = kw[k] * 2
                t2 = Task(t.name, t.fn, t.args, kw, timeout=t.timeout * 2, group=t.group, meta=t.meta)
                t2._retried = True
                again.append(t2)
        if again:
            check.log(f"retrying {len(again)} undecided task(s) with a doubled budget")
            seen = set()
            again = [t for t in again if not (t.group in seen or seen.add(t.group))]
            res2 = run_tasks(again, workers=max(2, (os.cpu_count() or 4) // 2), progress=prog)
            for g, r in res2.items():
                if r.get('status') not in ('unknown', 'timeout'):
                    res[g] = r
        return res
    try:
        mod.run(check, pool, Task)
    except Exception as e:  # noqa: BLE001
        import traceback
        check.harness_error(f"{type(e).__name__}: {e}\n{traceback.format_exc()[-1500:]}")
    sys.exit(check.finish())


if __name__ == '__main__':
    main()
