"""./check <id> [--tier quick|thorough] [--replay path]"""
import argparse
import importlib
import os
import sys

sys.path.insert(0, os.path.dirname(os.path.dirname(os.path.abspath(__file__))))


def main():
    ap = argparse.ArgumentParser()
    ap.add_argument('pid')
    ap.add_argument('--tier', default=None)
    ap.add_argument('--replay', default=None)
    a = ap.parse_args()
    os.environ.setdefault('HOLOVIZ_SPATIALPANDAS_VERIF', '1')
    os.environ.setdefault('NUMBA_NUM_THREADS', '4')
    import spatialpandas  # noqa: F401  (imported before forking workers)
    from harness.framework import Check
    from pysym.pool import Task, run_tasks
    mod = importlib.import_module('harness.run_' + a.pid.lower())
    if a.replay:
        sys.exit(mod.replay(a.replay))
    check = Check(a.pid, a.tier)

    def pool(tasks):
        def prog(t, r):
            check.log(f"  {t.name}: {r.get('status')} solver={r.get('solver_s')} wall={r.get('wall_s')} {str(r.get('detail') or '')[:160]}")
        return run_tasks(tasks, progress=prog)
    try:
        mod.run(check, pool, Task)
    except Exception as e:  # noqa: BLE001
        import traceback
        check.harness_error(f"{type(e).__name__}: {e}\n{traceback.format_exc()[-1500:]}")
    sys.exit(check.finish())


if __name__ == '__main__':
    main()
