"""C08 - hilbert_distance is the curve position of the bbox centre.

W1 (fork mode): GeometryArray.hilbert_distance over the input kinds of total_bounds (None, list, tuple, ndarray)
     with symbolic entries: the tuple handed to _distances_from_bounds is the extent with zero width/height widened
     by one, the caller's object is not modified, the call does not raise.
W2 (merge mode): _distances_from_bounds + _data2coord for extents width = 2^k * 2^p (k enumerated, origin symbolic):
     cell == clamp(floor((mid - lo) / cellsize)) per dimension, distances_from_coordinates replaced by an
     uninterpreted H_p(cx, cy) (its meaning is C07); NaN rows only range-checked.
W3: the value of a row inside a 3-row array equals the value of the row alone (independence).
"""
import time

import numpy as np
import z3

from pysym import values
from pysym.core import Explorer, Infeasible, Interp, Stub
from pysym.values import Num, PathRaise, SInt, Unsupported, tz, wrapb

from .framework import formula_size, model_ints, z3_check

RT = 'spatialpandas.spatialindex.rtree'
BASE = 'spatialpandas.geometry.base'

H = z3.Function('H', z3.IntSort(), z3.IntSort(), z3.IntSort(), z3.IntSort())     # H(p, cx, cy)
_fresh = [0]


def trunc_stub(x):
    """float -> int64: truncation toward zero on finite values, an arbitrary integer on NaN/inf (C-level undefined)"""
    if not isinstance(x, Num):
        return int(x)
    v = x.v
    r = z3.ToReal(v) if (z3.is_expr(v) and z3.is_int(v)) else (v if z3.is_expr(v) else z3.RealVal(v))
    tr = z3.If(r >= 0, z3.ToInt(r), -z3.ToInt(-r))
    if x.is_plain():
        return Num(tr)
    _fresh[0] += 1
    junk = z3.Int(f'undef_int_{_fresh[0]}')
    bad = z3.Or(tz(wrapb(x.nan)), (x.inf != 0) if z3.is_expr(x.inf) else z3.BoolVal(x.inf != 0))
    return Num(z3.If(bad, junk, tr))


def h_stub(p, coords):
    out = np.empty(coords.shape[0], dtype=object)
    for i in range(coords.shape[0]):
        c = [Num.lift(coords[i, d]).v for d in range(coords.shape[1])]
        c = [x if z3.is_expr(x) else z3.IntVal(int(x)) for x in c]
        while len(c) < 2:
            c.append(z3.IntVal(0))
        out[i] = Num(H(z3.IntVal(int(p)), c[0], c[1]))
    return out


def mk():
    values.set_mul_mode('exact')
    it = Interp()
    it.stubs['float_to_int'] = Stub(trunc_stub, 'float->int64: truncation toward zero; NaN/inf -> arbitrary integer')
    it.stubs['distances_from_coordinates'] = Stub(h_stub, 'distances_from_coordinates -> uninterpreted H_p(cx, cy) (C07)')
    return it


def q_cells(p, k, nrows=2, degenerate=(False, False), nan_row=True, timeout=120, seed=0):
    """W2/W3/W4: _distances_from_bounds on symbolic rows for extent width = 2^k * 2^p in x and y"""
    t0 = time.time()
    it = mk()
    side = 1 << p
    from fractions import Fraction
    W = Fraction(2) ** k * side
    lox, loy = z3.Real('lox'), z3.Real('loy')
    # exact scaling needs a dyadic origin too; a symbolic origin keeps (mid-lo)*(n/width) exact in the real model
    wx = 0 if degenerate[0] else W
    wy = 0 if degenerate[1] else W
    tb = (Num(lox), Num(loy), Num(lox + z3.RealVal(str(wx))) if wx else Num(lox), Num(loy + z3.RealVal(str(wy))) if wy else Num(loy))
    rows, zv = [], [lox, loy]
    bounds = np.empty((nrows, 4), dtype=object)
    for i in range(nrows):
        vs = [z3.Real(f'b{i}_{j}') for j in range(4)]
        nan = z3.Bool(f'nan{i}') if (nan_row and i == nrows - 1) else False
        zv += vs + ([nan] if nan is not False else [])
        for j in range(4):
            bounds[i, j] = Num(vs[j], nan)
        rows.append((vs, nan))
    f = it.func(RT, '_distances_from_bounds')
    res = it.call(f, [bounds, tb, p])
    effx = W if wx else Fraction(1)
    effy = W if wy else Fraction(1)

    def cell(mid, lo, width):
        scaled = (mid - lo) * z3.RealVal(str(Fraction(side) / width))
        fl = z3.ToInt(scaled)          # floor
        return z3.If(fl < 0, 0, z3.If(fl > side - 1, side - 1, fl))
    bad = []
    s = z3.Solver()
    for i, (vs, nan) in enumerate(rows):
        s.add(vs[0] <= vs[2], vs[1] <= vs[3])
        r = Num.lift(res[i]).v
        cx = cell((vs[0] + vs[2]) / 2, lox, effx)
        cy = cell((vs[1] + vs[3]) / 2, loy, effy)
        want = H(z3.IntVal(p), cx, cy)
        if nan is False:
            bad.append(r != want)
        else:
            # inert row: only the range of the cell is demanded: some cell in [0, 2^p)^2
            a, b_ = z3.Int(f'ca{i}'), z3.Int(f'cb{i}')
            inrange = z3.Exists([a, b_], z3.And(a >= 0, a < side, b_ >= 0, b_ < side, r == H(z3.IntVal(p), a, b_)))
            bad.append(z3.If(nan, z3.Not(inrange), r != want))
    # W3 independence: row 0 alone gives the same value
    it2 = mk()
    b1 = np.empty((1, 4), dtype=object)
    for j in range(4):
        b1[0, j] = bounds[0, j]
    res1 = it2.call(it2.func(RT, '_distances_from_bounds'), [b1, tb, p])
    bad.append(Num.lift(res1[0]).v != Num.lift(res[0]).v)
    s.add(z3.Or(*bad))
    symex = time.time() - t0
    st, m, dt = z3_check(s, timeout, seed)
    enc = dict(it.encoded)
    out = {'status': st, 'solver_s': round(dt, 3), 'formula_size': formula_size(s), 'encoded': enc, 'symex_s': round(symex, 2)}
    if m is not None:
        out['model'] = model_ints(m, zv)
    return out


def replay_cells(p, k, nrows, degenerate, model):
    """real _distances_from_bounds versus the reference cell (fractions) fed to the real distance_from_coordinate"""
    from fractions import Fraction
    from spatialpandas.spatialindex.hilbert_curve import distance_from_coordinate
    from spatialpandas.spatialindex.rtree import _distances_from_bounds
    side = 1 << p
    W = Fraction(2) ** k * side
    lox, loy = Fraction(model.get('lox', 0)), Fraction(model.get('loy', 0))
    wx = 0 if degenerate[0] else W
    wy = 0 if degenerate[1] else W
    tb = (float(lox), float(loy), float(lox + wx), float(loy + wy))
    b = np.zeros((nrows, 4))
    exact = []
    for i in range(nrows):
        isnan = bool(model.get(f'nan{i}', False))
        vs = [Fraction(model.get(f'b{i}_{j}', 0)) for j in range(4)]
        exact.append(None if isnan else vs)
        b[i] = [np.nan] * 4 if isnan else [float(x) for x in vs]
    representable = all(Fraction(x) == y for row, ex in zip(b, exact) if ex is not None for x, y in zip(row, ex)) and \
        Fraction(tb[0]) == lox and Fraction(tb[1]) == loy
    got = [int(x) for x in _distances_from_bounds(b, tb, p)]
    want = []
    for ex in exact:
        if ex is None:
            want.append(None)
            continue
        cs = []
        for (lo, hi, o, w) in ((ex[0], ex[2], lox, wx or 1), (ex[1], ex[3], loy, wy or 1)):
            c = ((lo + hi) / 2 - o) * Fraction(side) / w
            c = c.numerator // c.denominator
            cs.append(min(max(c, 0), side - 1))
        want.append(int(distance_from_coordinate(p, np.array(cs, dtype=np.int64))))
    bad = any((w is not None and g != w) or not (0 <= g < 4 ** p) for g, w in zip(got, want))
    return bad and representable, {'p': p, 'bounds': b.tolist(), 'total_bounds': tb, 'got': got, 'expected': want, 'exactly_representable': representable}


# ------------------------------------------------------------------------------------------------ W1: the wrapper
def q_wrapper(input_kind, p=7, timeout=120):
    """fork-mode execution of GeometryArray.hilbert_distance(total_bounds=<input_kind>, p)"""
    from . import tagged as T
    t0 = time.time()
    values.set_mul_mode('exact')
    ts = T.TagSpace(sort='real')
    arr, _ = T.build_array(ts, 'line', [2, None, 0, 2])      # a missing and an empty element: they contribute nothing to the default extent
    it = ts.install(Interp())
    captured = []
    it.stubs['_distances_from_bounds'] = Stub(lambda b, tb, pp: captured.append((b, tb, pp)) or np.zeros(b.shape[0], dtype=np.int64),
                                              '_distances_from_bounds -> records its arguments')
    xs = [z3.Real(n) for n in ('tb_x0', 'tb_y0', 'tb_x1', 'tb_y1')]
    ex = Explorer([xs[0] <= xs[2], xs[1] <= xs[3]])
    it.explorer = ex
    f = it.func(BASE, 'GeometryArray.hilbert_distance')
    problems = []
    nq = 0
    outcomes = set()
    while ex.work:
        script = ex.work.pop()
        ex.start(script)
        captured.clear()
        if input_kind == 'none':
            arg, keep = None, None
        elif input_kind == 'list':
            arg = [Num(x) for x in xs]
            keep = list(arg)
        elif input_kind == 'tuple':
            arg = tuple(Num(x) for x in xs)
            keep = tuple(arg)
        elif input_kind == 'mixed-list':
            arg = [0, Num(xs[1]), 10, Num(xs[3])]
            keep = list(arg)
        else:
            arg = np.empty(4, dtype=object)
            for i, x in enumerate(xs):
                arg[i] = Num(x)
            keep = arg.copy()
        raised = None
        try:
            it.call(f, [arr], {'total_bounds': arg, 'p': p})
        except Infeasible:
            continue
        except (Unsupported,):
            raise
        except PathRaise as e:
            raised = e.text
        except Exception as e:  # noqa: BLE001
            raised = f'{type(e).__name__}: {e}'
        ex.paths += 1
        ex.solver.push()
        ex.solver.add(*ex.pc)
        feasible = str(ex.solver.check()) == 'sat'
        model = model_ints(ex.solver.model(), xs) if feasible else {}
        ex.solver.pop()
        nq += 1
        if not feasible:
            continue
        if raised:
            outcomes.add('raises')
            problems.append({'problem': 'raises', 'detail': raised, 'model': model})
            continue
        outcomes.add('returns')
        if len(captured) != 1:
            problems.append({'problem': 'callee', 'detail': f'_distances_from_bounds called {len(captured)} times', 'model': model})
            continue
        b, tb, pp = captured[0]
        if input_kind == 'none':
            base = [Num.lift(v).v for v in it.getattr_(arr, 'total_bounds', None, True)]
        elif input_kind == 'mixed-list':
            base = [z3.RealVal(0), xs[1], z3.RealVal(10), xs[3]]
        else:
            base = xs
        want = [base[0], base[1], z3.If(base[0] == base[2], base[2] + 1, base[2]), z3.If(base[1] == base[3], base[3] + 1, base[3])]
        conds = [z3.BoolVal(isinstance(tb, tuple) and len(tb) == 4), z3.BoolVal(pp == p)]
        if isinstance(tb, tuple) and len(tb) == 4:
            conds += [values.tz(Num.lift(tb[i]) == Num(want[i])) for i in range(4)]
        # the caller's object is unchanged
        if keep is not None:
            after = list(arg)
            conds += [values.tz(Num.lift(a) == Num.lift(k_)) for a, k_ in zip(after, list(keep))]
        ex.solver.push()
        ex.solver.add(*ex.pc)
        ex.solver.add(z3.Not(z3.And(*conds)))
        r = str(ex.solver.check())
        nq += 1
        if r == 'sat':
            m = ex.solver.model()
            which = [i for i, c in enumerate(conds) if z3.is_false(m.eval(c, model_completion=True))]
            problems.append({'problem': 'argument-modified' if any(i >= 6 for i in which) else 'wrong-extent', 'detail': f'conditions {which} fail',
                             'model': model_ints(m, xs)})
        ex.solver.pop()
    st = 'violated' if problems else 'holds'
    return {'status': st, 'paths': ex.paths, 'queries': ex.checks + nq, 'solver_s': round(ex.solver_s, 2), 'encoded': it.encoded,
            'formula_size': ex.paths, 'problems': problems, 'symex_s': round(time.time() - t0, 2), 'outcomes': sorted(outcomes)}


def replay_wrapper(input_kind, prob, p=7):
    """public API replay: rows are placed at the quarter points of the reference extent so that a wrong extent
    shows up in the cells"""
    import copy
    import spatialpandas.geometry as sg
    from spatialpandas.spatialindex.rtree import _distances_from_bounds
    m = prob.get('model') or {}
    vals = [float(m.get(n, d)) for n, d in zip(('tb_x0', 'tb_y0', 'tb_x1', 'tb_y1'), (0, 0, 8, 4))]
    candidates = []
    if input_kind == 'none':
        for line in ([0, 0, 4, 4, 1, 1], [3, 1, 3, 5, 3, 2], [1, 5, 9, 5, 3, 5], [3, 1, 3, 1, 3, 1]):
            candidates.append((sg.LineArray([line, line[:4], line[2:]], dtype='float64'), None))
            candidates.append((sg.LineArray([line, None, line[:4], [], line[2:]], dtype='float64'), None))
    else:
        if input_kind == 'mixed-list':
            vals = [0.0, vals[1], 10.0, vals[3]]
        wx = (vals[2] - vals[0]) or 1.0
        wy = (vals[3] - vals[1]) or 1.0
        pts = [[vals[0] + wx * fx, vals[1] + wy * fy] for fx, fy in ((0.25, 0.25), (0.75, 0.25), (0.6, 0.8), (0.1, 0.95))]
        arr = sg.MultiPointArray(pts, dtype='float64')
        if input_kind == 'list':
            arg = list(vals)
        elif input_kind == 'tuple':
            arg = tuple(vals)
        elif input_kind == 'mixed-list':
            arg = [0, vals[1], 10, vals[3]]
        else:
            arg = np.array(vals)
        candidates.append((arr, arg))
    last = None
    for arr, arg in candidates:
        keep = copy.deepcopy(arg)
        wit = {'input_kind': input_kind, 'total_bounds': keep if not isinstance(keep, np.ndarray) else keep.tolist(), 'p': p,
               'array_bounds': arr.bounds.tolist()}
        last = wit
        try:
            got = arr.hilbert_distance(total_bounds=arg, p=p)
        except Exception as e:  # noqa: BLE001
            wit['got'] = f'raises {type(e).__name__}: {str(e)[:200]}'
            return True, wit
        changed = (arg is not None) and ([float(x) for x in arg] != [float(x) for x in keep])
        if keep is None:      # default extent: from the raw coordinates (independent of the library's total_bounds)
            cs = [c for j in range(len(arr)) if arr[j] is not None for c in arr[j].data.as_py()]
            ref = [min(cs[0::2]), min(cs[1::2]), max(cs[0::2]), max(cs[1::2])]
        else:
            ref = [float(x) for x in keep]
        ref = (ref[0], ref[1], ref[2] + (1.0 if ref[0] == ref[2] else 0.0), ref[3] + (1.0 if ref[1] == ref[3] else 0.0))
        want = _distances_from_bounds(arr.bounds, ref, p)
        wit.update(got=[int(x) for x in got], expected=[int(x) for x in want], argument_after=None if arg is None else [float(x) for x in arg])
        if changed or list(got) != list(want):
            return True, wit
    return False, last


def run_independence(check, pool, Task, pid):
    tasks = [Task(f'hilbert_distance: row value independent of the other rows p={p} k={k}', q_cells, (p, k), {'nrows': 3, 'seed': check.seed}, timeout=400,
                  meta={'p': p, 'k': k}) for p, k in ((3, 0), (10, -2))]
    res = pool(tasks)
    for t in tasks:
        r = res.get(t.name, {'status': 'error', 'detail': 'no result'})
        if r['status'] == 'sat':
            bad, wit = replay_cells(t.meta['p'], t.meta['k'], 3, (False, False), r['model'])
            if bad:
                v = check.violation(f'{pid}:hilbert_distance:cell', f'hilbert distance differs from the reference cell: {wit}', wit)
                check.record(t.name, dict(r, status='known-finding' if v == 'known' else 'violated'), 'query', t.meta)
            else:
                check.record(t.name, dict(r, status='inconclusive', detail=f'did not reproduce: {wit}'), 'query', t.meta)
        else:
            check.record(t.name, r, 'query', t.meta)
