"""C08 driver."""
from . import c08


def run(check, pool, Task):
    from . import validate
    validate.apply(check, ['data2coord', 'hilbert'])
    thorough = check.tier == 'thorough'
    cap = 600
    ps = (1, 2, 3, 7, 10, 15, 20, 31) if not thorough else tuple(range(1, 32))
    ks = (-3, -1, 0, 2, 3) if not thorough else (-3, -2, -1, 0, 1, 2, 3)
    check.bounds.update({'value': f'extent = 2^k * 2^p with k in {list(ks)}, p in {list(ps)}, origin and row bounds arbitrary reals (lo <= hi), <= 3 rows, one of them possibly NaN',
                         'wrapper': 'total_bounds given as None / list / tuple / ndarray / list mixing ints and floats, entries symbolic, degenerate in x and/or y',
                         'outside': 'rounding of the scaling arithmetic when the extent is not a power of two times the grid (exact model); numba typing of unusual argument types'})
    check.stubs += ['distances_from_coordinates -> uninterpreted H_p(cx, cy) (its meaning is C07)',
                    'float -> int64 conversion: truncation toward zero on finite values, arbitrary integer on NaN/inf',
                    '_distances_from_bounds records its arguments (wrapper obligations only)']
    tasks = []
    for p in ps:
        for k in ks:
            if (p + k) % 3 == 0 or thorough or p in (1, 31):
                tasks.append(Task(f'value: _distances_from_bounds/_data2coord cell == clamp(floor) p={p} k={k}', c08.q_cells, (p, k), {'nrows': 2, 'seed': check.seed},
                                  timeout=cap, meta={'kind': 'cells', 'p': p, 'k': k, 'deg': (False, False), 'nrows': 2}))
    for deg in ((True, False), (False, True), (True, True)):
        tasks.append(Task(f'value: degenerate extent {deg} p=4', c08.q_cells, (4, 0), {'degenerate': deg, 'seed': check.seed}, timeout=cap,
                          meta={'kind': 'cells', 'p': 4, 'k': 0, 'deg': deg, 'nrows': 2}))
    for ik in ('none', 'list', 'tuple', 'ndarray', 'mixed-list'):
        tasks.append(Task(f'wrapper: hilbert_distance(total_bounds as {ik})', c08.q_wrapper, (ik,), timeout=cap, meta={'kind': 'wrapper', 'ik': ik}))
    from . import c07
    for (p, n) in ((1, 2), (2, 2), (4, 2)):
        tasks.append(Task(f'independence: distances_from_coordinates row-wise == scalar on symbolic rows p={p} n={n}', c07.vectorised, (p, n), {'timeout': cap},
                          timeout=cap, meta={'kind': 'vec', 'p': p, 'n': n}))
    res = pool(tasks)
    for t in tasks:
        r = res.get(t.name, {'status': 'error', 'detail': 'no result'})
        m = t.meta
        if m['kind'] == 'vec' and r['status'] == 'sat':
            bad, wit = c07.replay_vectorised(m['p'], m['n'], r['inputs'])
            if bad:
                v = check.violation('C08:row-dependence', f"distance of a row depends on the other rows: {wit}", wit)
                check.record(t.name, dict(r, status='known-finding' if v == 'known' else 'violated'), 'bv-query', m)
            else:
                check.record(t.name, dict(r, status='inconclusive', detail='did not reproduce'), 'bv-query', m)
            continue
        if m['kind'] == 'cells' and r['status'] == 'sat':
            bad, wit = c08.replay_cells(m['p'], m['k'], m['nrows'], m['deg'], r['model'])
            if bad:
                v = check.violation('C08:cell', f"hilbert distance {wit['got']} differs from the curve position of the reference cell {wit['expected']}", wit)
                check.record(t.name, dict(r, status='known-finding' if v == 'known' else 'violated'), 'query', m)
            else:
                check.record(t.name, dict(r, status='inconclusive', detail=f'did not reproduce on the real code: {wit}'), 'query', m)
        elif m['kind'] == 'wrapper' and r['status'] == 'violated':
            outs = []
            for pr in r.get('problems') or []:
                bad, wit = c08.replay_wrapper(m['ik'], pr)
                if bad:
                    cls = 'raises' if str(wit.get('got', '')).startswith('raises') else ('argument-modified' if wit.get('argument_after') != wit.get('total_bounds') and wit.get('argument_after') is not None and list(wit.get('argument_after')) != [float(x) for x in wit['total_bounds']] else 'wrong-extent')
                    outs.append(check.violation(f"C08:wrapper:{m['ik']}:{cls}", f"hilbert_distance(total_bounds={wit['total_bounds']}): {str(wit.get('got'))[:200]}; argument afterwards {wit.get('argument_after')}", wit))
                else:
                    outs.append('spurious')
            st = 'violated' if any(o in ('new', 'dup') for o in outs) else ('known-finding' if outs and all(o == 'known' for o in outs) else 'inconclusive')
            check.record(t.name, dict(r, status=st), 'paths', m)
        else:
            check.record(t.name, r, 'query' if m['kind'] == 'cells' else 'paths', m)


def replay(path):
    import json
    print(json.dumps(json.load(open(path))['witness'], indent=1)[:3000])
    return 0
