#!/usr/bin/env python3
"""Diff solvers on the lemma encodings (run once per encoding change): every lemma of C01/C02 and the float32 line query
are exported as SMT-LIB2 from the z3 solver object and handed to the cvc5 binary, /usr/bin/z3 (4.8.12) and z3-new (5.1);
an `(error` line or a verdict that contradicts another solver's definite verdict is reported.  Writes crosscheck.json.
usage: .venv/bin/python tools/cross_check.py [timeout_s]"""
import json
import os
import subprocess
import sys
import tempfile
import time

ROOT = os.path.dirname(os.path.dirname(os.path.abspath(__file__)))
sys.path.insert(0, ROOT)
from harness import c01  # noqa: E402
from harness import framework  # noqa: E402


def main():
    tl = int(sys.argv[1]) if len(sys.argv) > 1 else 120
    captured = {}

    def fake_check(s, timeout, seed):
        captured['smt2'] = s.to_smt2()
        raise StopIteration

    out = {}
    saved = c01.z3_check
    for name in ['LS', 'L2', 'LB', 'E1down', 'E2', 'E34', 'P1', 'S0', 'f32:line[2]']:
        c01.z3_check = fake_check
        captured.clear()
        try:
            if name.startswith('f32'):
                orig = c01.finish_query

                def fq(s, impl, spec, allv, it, timeout, seed, t0, extra=None):
                    s.add(impl != spec)
                    captured['smt2'] = s.to_smt2()
                    raise StopIteration
                c01.finish_query = fq
                try:
                    c01.q_f32('line', [2])
                finally:
                    c01.finish_query = orig
            else:
                c01.lemma(name)
        except StopIteration:
            pass
        finally:
            c01.z3_check = saved
        smt = captured.get('smt2')
        if not smt:
            out[name] = {'error': 'no formula captured'}
            continue
        with tempfile.NamedTemporaryFile('w', suffix='.smt2', delete=False) as f:
            f.write('(set-logic QF_NIA)\n' + smt)
            path = f.name
        res = {}
        for solver, cmd in (('z3-4.8.12', ['/usr/bin/z3', f'-T:{tl}', path]), ('z3-5.1', ['z3-new', f'-T:{tl}', path]),
                            ('cvc5-1.0', ['cvc5', f'--tlimit={tl * 1000}', path])):
            t = time.time()
            try:
                p = subprocess.run(cmd, capture_output=True, text=True, timeout=tl + 30)
                txt = (p.stdout + p.stderr).strip()
            except subprocess.TimeoutExpired:
                txt = 'timeout'
            words = [w for w in txt.split() if w in ('sat', 'unsat', 'unknown', 'timeout')]
            verdict = 'error' if '(error' in txt else (words[-1] if words else 'timeout')
            res[solver] = {'verdict': verdict, 'seconds': round(time.time() - t, 1)}
        os.unlink(path)
        definite = {v['verdict'] for v in res.values() if v['verdict'] in ('sat', 'unsat')}
        res['agree'] = len(definite) <= 1
        out[name] = res
        print(name, res, flush=True)
    json.dump(out, open(os.path.join(ROOT, 'crosscheck.json'), 'w'), indent=1)
    return 0 if all(v.get('agree', False) for v in out.values()) else 1


if __name__ == '__main__':
    sys.exit(main())
