#!/usr/bin/env python3
"""Regenerate MANIFEST.json from the table below (kept in one place so that it stays valid)."""
import json
import os

ROOT = os.path.dirname(os.path.dirname(os.path.abspath(__file__)))
TECH = "symbolic execution of the repository's own source (AST interpreter) + z3 SMT verdict within stated bounds; counterexamples replayed on the jitted code"

CLAIMED = {
    'C01': dict(
        text="Bounded symbolic verification: the real intersection kernels are executed symbolically; exact single-segment lemmas (|v|<=2^25) are "
             "proved, then each whole-kernel obligation (implementation == declarative oracle for ALL coordinates and boxes) is discharged with "
             "multiplication uninterpreted + proved lemma instances. unsat covers every tie/collinearity/vertex-on-ray case inside the bounds; sat is "
             "replayed on the real build before being reported. Float32 coordinate buffers are decided with a float32 rounding mode (float32-typed "
             "differences rounded to 24 bits, encoded exactly): line [2] monolithically, the other structures by showing that no float32-typed "
             "operation occurs (then the float64 obligation applies verbatim).",
        note="Bounds: line <=4 (8 thorough) vertices, multiline <=2 parts, polygon shell <=4 (6) edges, one hole, two-part multipolygon; |v|<=2^25; "
             "box of positive area for line/polygon kinds; rings closed; hole bbox inside shell bbox. Trusted: pysym's model of numba semantics "
             "(validated against the jitted code on concrete inputs), z3.",
        ref='5 (C01)'),
    'C03': dict(
        text="Fork-mode symbolic execution of the real HilbertRtree build and query code with Real box coordinates, NaN-row flags and an arbitrary "
             "key permutation; every feasible path is explored and its concrete result lists are checked against the box oracle under the path "
             "condition by the solver. Exhaustive over all box values for each (n, page size, dimension, permutation) listed.",
        note="Bounds: n<=4 rows (5 thorough), d in 1..3, every page size in 1..n+1; the Hilbert order is replaced by an arbitrary permutation "
             "(stub) whose keys are spread over 0..2^(d p)-1, for p=10 and the largest orders whose distances fit an int64 (d=1 p=62, d=2 p=31, d=3 p=21). Comparison-only code, so Real results transfer to floats. Trusted: pysym, z3.",
        ref='5 (C03)'),
    'C07': dict(
        text="Bit-vector (int64) symbolic execution of every function of hilbert_curve.py; round trips, ranges, adjacency, refinement, end points (both directions, concrete runs up to n*p=62) and "
             "vectorised==scalar are SMT queries over all cells/distances for the listed orders, windowed queries up to p=31.",
        note="Bounds: n=2 full width p<=10 (14 thorough) for round trip/adjacency, h->c->h p<=8 (10), refinement(c) all p<=30, refinement(d) p<=12 (16); "
             "low-10-bit windows with fixed high-bit patterns up to p=31; n=1 p<=12 (20); n=3 p<=5 (7). Trusted: pysym bit-vector model of numba int64, z3.",
        ref='5 (C07)'),
}

NOT_APPLICABLE = {
    'C09': "row conservation/ordering is produced by dask set_index/repartition (pandas/C shuffle); no symbolic encoding of dask within reach",
    'C10': "state is a directory tree manipulated through fsspec and pyarrow-parquet (C++); nothing for a solver to range over",
    'C11': "decided inside pyarrow's C++ parquet reader/writer and pandas' extension-dtype registry; not symbolically executable from this repository",
    'C12': "partition-bounds ordering/pruning are pandas expressions over a JSON blob plus dask natural_sort_key; would verify a pandas model, not the code",
    'C18': "the engine executes prange sequentially and has no model of threads, the GIL, numba's parallel runtime or dask schedulers",
    'C19': "fault positions are Boolean flags on fsspec calls inside closures that call dask/pandas/pyarrow; a solver would merely enumerate flags",
    'C20': "governed by pandas _constructor/__finalize__ machinery and dask map_partitions; not encodable from this repository's source",
}
PENDING = {}


def main():
    extra = json.load(open(os.path.join(ROOT, 'tools', 'manifest_extra.json'))) if os.path.exists(os.path.join(ROOT, 'tools', 'manifest_extra.json')) else {}
    claimed = dict(CLAIMED)
    claimed.update(extra.get('claimed', {}))
    checks = []
    for pid in sorted(claimed):
        c = claimed[pid]
        checks.append({
            'property_id': pid,
            'quick_cmd': f'./check {pid} --tier quick',
            'thorough_cmd': f'./check {pid} --tier thorough',
            'evidence_file': f'/verif/evidence/{pid}.json',
            'replay_cmd_template': f'./check {pid} --replay {{path}}',
            'engine': 'pysym',
            'level_claimed': {'category': 'model_checking', 'text': c['text'], 'design_ref': c['ref']},
            'level_note': c['note'],
            'technique': c.get('technique', TECH),
        })
    na = dict(NOT_APPLICABLE)
    allp = [json.loads(l)['id'] for l in open(os.path.join(ROOT, 'properties.jsonl'))]
    for pid in allp:
        if pid not in claimed and pid not in na:
            na[pid] = PENDING.get(pid, 'solver-based check designed (DESIGN.md section 5) but not built yet in this round; not claimed')
    man = {
        'version': 1,
        'setup_cmd': './setup.sh',
        'hooks': {'guard': 'HOLOVIZ_SPATIALPANDAS_VERIF', 'enable': 'no source hooks are needed: the interpreter observes locals itself; the variable is set by ./check but read by nothing in /repo',
                  'baseline_off_cmd': 'cd /repo && /venv/bin/python -m pytest -ra -q -p no:cacheprovider --timeout=900 --continue-on-collection-errors',
                  'source_commits': [], 'add_only': True},
        'engines': [{'name': 'pysym', 'path': '/verif/pysym', 'serves_properties': sorted(claimed),
                     'kind_free_text': 'AST-level symbolic interpreter for the numba-nopython subset and its Python wrappers (merge + fork modes) over z3 Int/Real/BitVec terms'}],
        'checks': checks,
        'not_applicable': [{'property_id': k, 'reason': v} for k, v in sorted(na.items())],
        'notes': 'Exit codes of ./check: 0 all obligations discharged (KNOWN-FINDING lines for listed findings), 1 reproduced violation, 2 inconclusive, 3 harness error. '
                 'fix: commits in /repo are listed in known_findings.json with status fixed; status open entries (C17: elements made of infinities) are printed as KNOWN-FINDING lines.',
    }
    json.dump(man, open(os.path.join(ROOT, 'MANIFEST.json'), 'w'), indent=1)
    print('claimed', sorted(claimed), 'not_applicable', sorted(na))


if __name__ == '__main__':
    main()
