#!/usr/bin/env python3
"""Update seeded/<id>/meta.json from seeded/RESULTS.json and print the markdown table for DESIGN.md section 12."""
import json
import os

ROOT = os.path.dirname(os.path.dirname(os.path.abspath(__file__)))
SEED = os.path.join(ROOT, 'seeded')
res = json.load(open(os.path.join(SEED, 'RESULTS.json')))
rows = []
for mid in sorted(d for d in os.listdir(SEED) if os.path.isdir(os.path.join(SEED, d))):
    mp = os.path.join(SEED, mid, 'meta.json')
    meta = json.load(open(mp))
    r = res.get(mid, {})
    det = [p for p, c in r.get('checks', {}).items() if isinstance(c, dict) and c['exit'] == 1 and c['violations'] > 0]
    inconc = [p for p, c in r.get('checks', {}).items() if isinstance(c, dict) and c['exit'] in (2, 3)]
    meta['verified'] = {'demo_exit_unchanged_tree': r.get('demo_clean'), 'demo_exit_with_change': r.get('demo_mutant'),
                        'ran': [f"{p}: exit {c['exit']}, {c['violations']} violation line(s), {c['wall_s']} s" if isinstance(c, dict) else f"{p}: {c}" for p, c in r.get('checks', {}).items()]}
    meta['detected_by'] = det
    json.dump(meta, open(mp, 'w'), indent=1)
    manifests = r.get('demo_mutant') not in (0, None)
    if r.get('error'):
        rows.append(f"| {mid} | {meta['change'][:150]} | NOT RUN: {r['error'][:80]} |")
        continue
    verdict = ', '.join(det) if det else ('no longer manifests on the repaired tree (demo passes)' if not manifests else ('inconclusive: ' + ', '.join(inconc) if inconc else 'not detected'))
    rows.append(f"| {mid} | {meta['change'][:150]} | {verdict} |")
table = '| id | change | caught by (quick tier, exit 1 + VIOLATION) |\n|---|---|---|\n' + '\n'.join(rows)
print(table)
dp = os.path.join(ROOT, 'DESIGN.md')
d = open(dp).read()
b, e = '<!-- SEEDED-TABLE-BEGIN -->', '<!-- SEEDED-TABLE-END -->'
if b in d and e in d:
    d = d[:d.index(b) + len(b)] + '\n' + table + '\n' + d[d.index(e):]
    open(dp, 'w').write(d)
