#!/usr/bin/env python3
"""Archive the mutants produced by one sub-agent round into seeded/<pid>-m<k>/.

usage: archive_round.py <round> <prefix> <descriptions.json>
descriptions.json: {"C01": [["change", "needs_to_manifest"], ["change", "needs"]], ...}"""
import json
import os
import shutil
import sys

ROOT = os.path.dirname(os.path.dirname(os.path.abspath(__file__)))
SEED = os.path.join(ROOT, 'seeded')


def main():
    rnd, prefix, descf = int(sys.argv[1]), sys.argv[2], sys.argv[3]
    desc = json.load(open(descf))
    for pid, items in desc.items():
        have = [int(d.split('-m')[1]) for d in os.listdir(SEED) if d.startswith(pid + '-m')]
        k = max(have or [0])
        for j, (change, needs) in enumerate(items, 1):
            src = f'{prefix}{pid}/mutant{j}'
            if not os.path.exists(os.path.join(src, 'patch.diff')):
                print('missing', src)
                continue
            k += 1
            dst = os.path.join(SEED, f'{pid}-m{k}')
            os.makedirs(dst)
            for f in ('patch.diff', 'demo.py', 'README.md'):
                if os.path.exists(os.path.join(src, f)):
                    shutil.copy(os.path.join(src, f), dst)
            json.dump({'id': f'{pid}-m{k}', 'property': pid, 'change': change, 'needs_to_manifest': needs, 'round': rnd,
                       'source': 'independent sub-agent given only the property text, the list of earlier changes to avoid, and a scratch worktree (of the repaired tree)',
                       'rebased': False, 'verified': None, 'detected_by': None}, open(os.path.join(dst, 'meta.json'), 'w'), indent=1)
            print('archived', dst)


if __name__ == '__main__':
    main()
