#!/usr/bin/env python3
"""Apply every seeded change to /repo in turn, run its demonstration and the registered quick checks, undo it.
usage: tools/run_seeded.py [id ...] [--checks C01,C02] ; writes seeded/RESULTS.json"""
import json
import os
import subprocess
import sys
import time

ROOT = os.path.dirname(os.path.dirname(os.path.abspath(__file__)))
SEED = os.path.join(ROOT, 'seeded')
ALSO = {'C15-m9': ['C02', 'C01'], 'C15-m10': ['C14'], 'C05-m6': ['C02'], 'C03-m10': ['C17'], 'C17-m7': ['C02'], 'C17-m8': ['C03'], 'C15-m7': ['C16'], 'C04-m8': ['C03'], 'C03-m7': ['C17'], 'C05-m4': ['C13', 'C16'], 'C16-m7': ['C14'], 'C13-m7': ['C06'], 'C08-m8': ['C17', 'C13'], 'C01-m8': ['C02'], 'C14-m8': ['C16'], 'C01-m7': ['C17'], 'C15-m5': ['C01', 'C02'], 'C15-m6': ['C14'], 'C17-m5': ['C06'], 'C08-m6': ['C07'], 'C04-m6': ['C03'], 'C17-m3': ['C16'], 'C17-m4': ['C13'], 'C16-m4': ['C04'], 'C13-m4': ['C06'], 'C04-m4': ['C17'], 'C02-m4': ['C01'], 'C04-m2': ['C13'], 'C05-m1': ['C03'], 'C08-m2': ['C07'], 'C13-m2': ['C06'], 'C17-m1': ['C06'], 'C01-m2': ['C17'], 'C01-m1': ['C02'], 'C02-m1': ['C01'], 'C17-m2': ['C02']}


def sh(cmd, **kw):
    return subprocess.run(cmd, shell=True, capture_output=True, text=True, **kw)


def main():
    args = [a for a in sys.argv[1:] if not a.startswith('--')]
    ids = args or sorted(d for d in os.listdir(SEED) if os.path.isdir(os.path.join(SEED, d)))
    outs = [a.split('=', 1)[1] for a in sys.argv[1:] if a.startswith('--out=')]
    resf = outs[0] if outs else os.path.join(SEED, 'RESULTS.json')      # --out=<file>: partial results (merge with tools/merge_results.py)
    results = json.load(open(resf)) if os.path.exists(resf) else {}
    results = {k: v for k, v in results.items() if k not in ids}
    claimed = [c['property_id'] for c in json.load(open(os.path.join(ROOT, 'MANIFEST.json')))['checks']]
    wt = f'/tmp/seedrepo_{os.getpid()}'
    sh(f'git -C /repo worktree remove --force {wt}')
    assert sh(f'git -C /repo worktree add --detach {wt} HEAD').returncode == 0
    env = dict(os.environ, PYTHONPATH=wt, VERIF_EVIDENCE_DIR=f'/tmp/seed_evidence_{os.getpid()}')
    for mid in ids:
        d = os.path.join(SEED, mid)
        meta = json.load(open(os.path.join(d, 'meta.json')))
        r = {'demo_clean': None, 'demo_mutant': None, 'checks': {}}
        r['demo_clean'] = sh(f'/venv/bin/python {d}/demo.py', cwd='/tmp').returncode     # /repo itself (unchanged)
        ap = sh(f'git -C {wt} apply {d}/patch.diff')
        if ap.returncode != 0:
            r['error'] = 'patch does not apply: ' + ap.stderr[-300:]
            results[mid] = r
            continue
        try:
            r['demo_mutant'] = sh(f'/venv/bin/python {d}/demo.py', cwd='/tmp', env=env).returncode
            for pid in [meta['property']] + ALSO.get(mid, []):
                if pid not in claimed:
                    r['checks'][pid] = 'not claimed'
                    continue
                t = time.time()
                if not sh(f'git -C {wt} diff --stat').stdout.strip():
                    r['checks'][pid] = 'INVALID: patch not applied in the scratch worktree before the check'
                    continue
                p = sh(f'./check {pid} --tier quick', cwd=ROOT, env=env)
                if not sh(f'git -C {wt} diff --stat').stdout.strip():
                    r['checks'][pid] = 'INVALID: scratch worktree lost the patch during the check'
                    continue
                viol = [l for l in p.stdout.splitlines() if l.startswith('VIOLATION')]
                r['checks'][pid] = {'exit': p.returncode, 'violations': len(viol), 'wall_s': round(time.time() - t, 1),
                                    'first': next((l for l in p.stdout.splitlines() if '  -> ' in l), '')[:300]}
                print(mid, pid, r['checks'][pid], flush=True)
        finally:
            sh(f'git -C {wt} checkout -- .')
        results[mid] = r
        json.dump(results, open(resf, 'w'), indent=1)
    sh(f'git -C /repo worktree remove --force {wt}')
    sh(f'rm -rf /tmp/seed_evidence_{os.getpid()}')
    print(json.dumps({k: {p: (c if isinstance(c, str) else c['exit']) for p, c in v['checks'].items()} for k, v in results.items()}, indent=1))


if __name__ == '__main__':
    main()
