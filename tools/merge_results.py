#!/usr/bin/env python3
"""merge partial result files of tools/run_seeded.py --out=... into seeded/RESULTS.json"""
import json
import os
import sys

ROOT = os.path.dirname(os.path.dirname(os.path.abspath(__file__)))
resf = os.path.join(ROOT, 'seeded', 'RESULTS.json')
res = json.load(open(resf)) if os.path.exists(resf) else {}
for f in sys.argv[1:]:
    res.update(json.load(open(f)))
json.dump(dict(sorted(res.items())), open(resf, 'w'), indent=1)
print(len(res), 'entries')
