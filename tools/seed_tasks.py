#!/usr/bin/env python3
"""Prepare the scratch worktrees and TASK.md briefs for one round of independently seeded changes.

usage: seed_tasks.py <round> <prefix> [ids...]      e.g.  seed_tasks.py 4 /tmp/w4_ C01 C02

Each sub-agent gets only the property text (statement + quantifier), the list of earlier changes to avoid and its own
worktree of /repo's HEAD; nothing from /verif.  Prints the worktree paths."""
import json
import os
import subprocess
import sys

HERE = os.path.dirname(os.path.dirname(os.path.abspath(__file__)))

TEMPLATE = """# Task: seed a realistic property-breaking change into spatialpandas

You are working in a scratch git worktree of the Python library holoviz/spatialpandas at `{wt}`
(a worktree of the repository in /repo). Work ONLY inside `{wt}`. Never edit /repo itself and never read or
write anything under /verif. There is no network.

Running code: `cd {wt} && /venv/bin/python your_script.py` — the current directory comes first on sys.path, so the
worktree's own `spatialpandas` package is the one imported (check with
`/venv/bin/python -c "import spatialpandas; print(spatialpandas.__file__)"` from inside `{wt}`).
The functions are numba-jitted without an on-disk cache, so edits take effect on the next process start.

Existing test suite: `cd {wt} && /venv/bin/python -m pytest -q -p no:cacheprovider --timeout=900`
(takes 2-3 minutes; on the unmodified tree 495 tests pass and 17 fail — the 17 failures are pre-existing and
unrelated: test_getitem_propagates_readonly_property, test_len, test_size, test_fillna_limit_frame,
test_fillna_limit_series, test_fillna_readonly, test_fillna_with_none in both extension-array test files and
test_rank_missing[*] in test_fixedextensionarray.py).

## The property ({pid}: {title})

{statement}

Quantified over: {quant}

## What to produce

Earlier rounds already produced the following changes for this property; produce changes that use DIFFERENT mechanisms and touch different code paths (other functions, other wrappers or kernels, other input kinds, other configurations, interactions between two sites). Prefer subtle changes whose effect depends on exact coincidences of values (ties, collinearity, equal coordinates, boundary values) or on a particular structure (number of vertices/rings/parts, position of an element in the array, a derived array):
{earlier}

TWO different, independent changes ("mutants") to the library source (not to tests), in different functions or
mechanisms, each of which BREAKS this property while
 (a) the package still imports and the jitted functions still compile, and
 (b) the full existing test suite gives exactly the same set of passing tests as before (495 passing).

Each change should look like something a maintainer could plausibly introduce (a refactoring slip, an off-by-one,
a wrong comparison operator, an "optimisation" shortcut, a mishandled edge case, a wrong offset after slicing, ...)
and should need something SPECIFIC to manifest: an unusual input, a tie / boundary coincidence, a particular
configuration (e.g. a page size, a curve order, a sliced array whose buffers start at a non-zero offset), a
multi-step sequence of operations, or two cooperating sites that each look fine alone. Do NOT produce changes that
any ordinary use of the library would expose at once.

For each mutant k in {{1,2}} create the directory `{wt}/mutant<k>/` containing:
 * `patch.diff` — `git diff` of the source change only (applies with `git apply` at the worktree root);
 * `demo.py` — a small stand-alone program that exits 0 (printing OK) on the unmodified tree and exits non-zero,
   printing what went wrong, when the patch is applied; it should compare the library's answer with an independent
   expectation stated in the script (not with a stored output of the library);
 * `README.md` — which part of the property it breaks, what is needed for it to manifest, and how you checked it.

You must actually verify, for each mutant: demo.py passes without the patch and fails with it; the test suite has
the same 495 passes with the patch applied. When you are done leave the worktree's tracked files unmodified
(`git checkout -- .`), with only the untracked `mutant1/` and `mutant2/` directories added.
Do NOT use `git stash` (the stash is shared by all worktrees of /repo and other agents use it concurrently). Toggle
your change with `git diff > mutantK/patch.diff`, `git apply -R mutantK/patch.diff` / `git apply mutantK/patch.diff`,
or `git checkout -- .`. If an unexpected modification to a file you did not touch appears in your worktree, revert
that file with `git checkout -- <file>`.
Final answer: a short summary of the two mutants (files touched, what is needed to manifest) and the verification
you ran.
"""


def main():
    rnd, prefix, ids = sys.argv[1], sys.argv[2], sys.argv[3:]
    props = {json.loads(l)['id']: json.loads(l) for l in open(os.path.join(HERE, 'properties.jsonl'))}
    for pid in ids:
        p = props[pid]
        earlier = []
        sd = os.path.join(HERE, 'seeded')
        for d in sorted(os.listdir(sd)):
            if d.startswith(pid + '-'):
                earlier.append(' * ' + json.load(open(os.path.join(sd, d, 'meta.json')))['change'])
        wt = prefix + pid
        subprocess.run(['git', '-C', '/repo', 'worktree', 'add', '--detach', wt, 'HEAD'], check=True, capture_output=True)
        q = p['quantifier']
        with open(os.path.join(wt, 'TASK.md'), 'w') as f:
            f.write(TEMPLATE.format(wt=wt, pid=pid, title=p['title'], statement=p['statement'], quant=q['text'] if isinstance(q, dict) else q,
                                    earlier='\n'.join(earlier) or ' * (none)'))
        print(wt)


if __name__ == '__main__':
    main()
